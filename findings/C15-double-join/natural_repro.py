"""Natural reproduction of the C15 known finding - plain script, no simulator.

A relationship whose key differs from the related table's name (Comment.writer ->
table "author").  The host's base query already joins the related entity by target;
apply_odata_query joins it a second time and the statement cannot be executed.

exit 1 = finding reproduces (expected on the pinned tree), 0 = it does not.
"""
import os
import sys

sys.path.insert(0, os.environ.get("VERIF_REPO", "/repo"))

from sqlalchemy import Column, ForeignKey, Integer, String, create_engine, select  # noqa: E402
from sqlalchemy.orm import Session, declarative_base, relationship  # noqa: E402

from odata_query.sqlalchemy import apply_odata_query  # noqa: E402

Base = declarative_base()


class Author(Base):
    __tablename__ = "author"
    id = Column(Integer, primary_key=True)
    name = Column(String, nullable=False)


class Comment(Base):
    __tablename__ = "comment"
    id = Column(Integer, primary_key=True)
    writer_id = Column(Integer, ForeignKey("author.id"))
    writer = relationship("Author")


def main():
    eng = create_engine("sqlite://")
    Base.metadata.create_all(eng)
    bad = 0
    with Session(eng) as s:
        s.add_all([Author(id=1, name="ann"), Comment(id=1, writer_id=1)])
        s.flush()
        bases = {
            "select.join(Comment.writer)   [by relationship]": select(Comment).join(Comment.writer),
            "select.join(Author, onclause) [by target]": select(Comment).join(
                Author, Comment.writer_id == Author.id),
            "select.join(Author)           [by target]": select(Comment).join(Author),
            "query.join(Author)            [legacy, by target]": s.query(Comment).join(Author),
        }
        for name, base in bases.items():
            q = apply_odata_query(base, "writer/name eq 'ann'")
            try:
                rows = q.all() if hasattr(q, "all") else s.execute(q).scalars().all()
                print("%-55s ok, %d row(s)" % (name, len(rows)))
            except Exception as e:
                bad += 1
                print("%-55s FAILS: %s" % (name, str(e).splitlines()[0][:90]))
    return 1 if bad else 0


if __name__ == "__main__":
    sys.exit(main())
