"""Natural reproduction of known finding C15-sa-select-limit - plain script, no simulator.

The base query is "the first two posts by id".  The shorthand is asked for the rows of
that base query with rating >= 2.  The 2.0-style select paths put the WHERE underneath
the LIMIT and return rows the base query never returns; legacy Query (and Django) refuse.

exit 1 = finding reproduces (expected on the pinned tree), 0 = it does not.
"""
import os
import sys

sys.path.insert(0, os.environ.get("VERIF_REPO", "/repo"))

from sqlalchemy import Column, Integer, create_engine, select  # noqa: E402
from sqlalchemy.orm import Session, declarative_base  # noqa: E402

from odata_query.sqlalchemy import apply_odata_core, apply_odata_query  # noqa: E402

Base = declarative_base()


class Post(Base):
    __tablename__ = "post"
    id = Column(Integer, primary_key=True)
    rating = Column(Integer, nullable=False)


def main():
    eng = create_engine("sqlite://")
    Base.metadata.create_all(eng)
    bad = 0
    with Session(eng) as s:
        s.add_all([Post(id=i, rating=i) for i in range(1, 6)])
        s.flush()
        base_ids = [1, 2]
        expected = [i for i in base_ids if i >= 2]
        t = Post.__table__
        cases = {
            "select(Post).order_by(id).limit(2)": lambda: [
                p.id for p in s.execute(apply_odata_query(
                    select(Post).order_by(Post.id).limit(2), "rating ge 2")).scalars()],
            "select(table).order_by(id).limit(2)  [Core]": lambda: [
                r[0] for r in s.execute(apply_odata_core(
                    select(t).order_by(t.c.id).limit(2), "rating ge 2"))],
            "session.query(Post).order_by(id).limit(2)  [legacy]": lambda: [
                p.id for p in apply_odata_query(
                    s.query(Post).order_by(Post.id).limit(2), "rating ge 2").all()],
        }
        for name, fn in cases.items():
            try:
                got = fn()
            except Exception as e:
                print("%-55s refuses: %s" % (name, type(e).__name__))
                continue
            ok = got == expected
            bad += not ok
            print("%-55s %s got %s, rows of the base that satisfy the filter: %s" % (
                name, "ok" if ok else "WRONG", got, expected))
    return 1 if bad else 0


if __name__ == "__main__":
    sys.exit(main())
