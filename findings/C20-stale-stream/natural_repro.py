"""Natural reproduction of the C20 defect - no simulator, no tracing, no injected faults.

One ODataLexer is shared (as the documentation and the test-suite do).  A bad filter makes
the parser raise while its token stream is suspended; the handler keeps the exception in
a local (`except ... as e: err = e`), which is enough to put the suspended stream into a
reference cycle.  Whenever CPython's cyclic collector happens to run while a *later*
tokenization on the same lexer is inside a token action, the old stream's `finally`
block overwrites `lexer.index` and SLY resumes the new scan from the stale position:
a valid filter then raises or - worse - yields a silently truncated / garbled AST.

Usage: natural_repro.py [iterations] [gc threshold]     exit 1 = wrong outcomes seen
"""
import gc
import os
import sys

sys.path.insert(0, os.environ.get("VERIF_REPO", "/repo"))

from odata_query.exceptions import ODataException  # noqa: E402
from odata_query.grammar import ODataLexer, ODataParser  # noqa: E402

GOOD = "name eq 'abc' and rating gt 3 or not (id in (1, 2, 3))"
BAD = "name eq 'abc' and rating gt"


def handle_request(lexer, text):
    """What a web view does: parse, report errors."""
    err = None
    try:
        return ODataParser().parse(lexer.tokenize(text)), None
    except ODataException as e:
        err = e          # frame -> err -> traceback -> frame: a reference cycle
    return None, err


def main():
    n = int(sys.argv[1]) if len(sys.argv) > 1 else 3000
    thr = int(sys.argv[2]) if len(sys.argv) > 2 else 50
    expected = repr(ODataParser().parse(ODataLexer().tokenize(GOOD)))
    gc.set_threshold(thr)
    lexer = ODataLexer()
    wrong = []
    for i in range(n):
        handle_request(lexer, BAD)
        ast, err = handle_request(lexer, GOOD)
        got = repr(ast) if err is None else "raised %r" % (err,)
        if got != expected:
            wrong.append((i, got))
    print("iterations=%d gc_threshold=%d wrong_outcomes=%d" % (n, thr, len(wrong)))
    for i, got in wrong[:5]:
        print("  iteration %d: %s" % (i, got[:200]))
    return 1 if wrong else 0


if __name__ == "__main__":
    sys.exit(main())
