"""Known findings (committed, read-only at run time): genuine defects that are recorded
rather than repaired.  An entry names the specific history shape that fails, as a
predicate over the *minimised* plan and the violation; a violation that matches no entry
is reported.  ``fixed`` entries are documentation only and suppress nothing."""
import json
import os

from . import env

PATH = os.path.join(env.VERIF_DIR, "known_findings.json")


def load():
    try:
        with open(PATH) as f:
            return json.load(f)
    except FileNotFoundError:
        return {"findings": [], "fixed": []}


def match(prop, violation, plan, matchers):
    """Returns the matching finding entry or None.  ``matchers`` maps a matcher name to a
    predicate(entry, violation, plan)."""
    for entry in load().get("findings", []):
        if entry.get("property") != prop:
            continue
        fn = matchers.get(entry.get("matcher"))
        if fn is not None and fn(entry, violation, plan):
            return entry
    return None
