"""Baton-passing deterministic scheduler for caller threads (DESIGN.md 5.3).

Clients are real threads, but exactly one of them owns the baton at any moment, so
CPython's own thread switching never decides anything.  A ``sys.settrace`` function
installed in every client thread turns each call/line/return/exception (and, on
request, opcode) event inside the code under test into one tick of simulated time and
into a possible pre-emption or fault point.  What happens at which tick is dictated by
an explicit plan; the scheduler itself draws no random numbers and reads no clock.

The scheduler knows nothing about odata-query: the engine on top of it supplies

* ``traced(code) -> bool``     which code objects are "the system" (traced, counted),
* ``run_op(sim, cid, opi, op)`` what a client does for one op of its program,
* ``fire(sim, frame, event, point)`` what a fault point does.
"""
import hashlib
import os
import sys
import threading


class Abort(BaseException):
    """Raised by the harness inside a client to end a run that is already decided
    (harness error or no-progress).  BaseException so library code cannot catch it
    with ``except Exception``."""


class HarnessError(Exception):
    pass


_THIS_FILE = os.path.abspath(__file__)


def warm_up_opcode_tracing():
    """CPython 3.12 enables per-instruction trace events for the interpreter only at the
    first ``sys.settrace`` call *after* some frame has set ``f_trace_opcodes``; the flag
    is sticky for the process.  Without this warm-up the first opcode-granularity run of
    a process would silently run at line granularity - a history dependence of the
    harness itself.  Called once per process before any simulated run."""
    def probe():
        return None

    def tracer(frame, event, arg):
        frame.f_trace_opcodes = True
        return tracer

    old = sys.gettrace()
    sys.settrace(tracer)
    try:
        probe()
    finally:
        sys.settrace(old)


class Sim:
    """One simulated execution of a plan.

    plan fields used here (the engine may add more):
      clients:   [{"ops": [ {"id": str, ...}, ... ]}, ...]
      start:     client that gets the baton first
      granularity: "line" | "opcode"
      points:    [{"op": op id, "at": n, "kind": "preempt"|<fault kind>, ...}, ...]
                 a point fires at the n-th traced event (1-based) inside that op
    """

    def __init__(self, plan, traced, run_op, fire=None, engine=None, deep_log=False,
                 op_frame_files=(), budget_factor=50, watch_code=None):
        self.plan = plan
        self.traced = traced
        self.run_op_fn = run_op
        self.fire_fn = fire
        self.engine = engine
        self.deep = deep_log
        self.op_frame_files = set(op_frame_files) | {_THIS_FILE}
        self.budget_factor = budget_factor
        # engine.on_watch() sees the call/return/exception events of these code objects
        self.watch = dict(watch_code or {})
        self.n = len(plan["clients"])
        self.opcode = plan.get("granularity", "line") == "opcode"
        # simulated time
        self.seq = 0            # global event sequence number
        self.opev = 0           # events inside the current op of the running client
        self.next_at = 1 << 60  # op-event number at which the next planned point fires
        self.op_budget = 1 << 60
        self.active = False     # inside an op body of the running client
        self.current = None     # client holding the baton
        # per client saved context (only the baton holder's is "live" in the fields above)
        self._saved = [None] * self.n
        self.cur_points = []    # pending points of the current op, sorted by "at"
        self.cur_op = None      # (cid, opi, op)
        self.finished = [False] * self.n
        self.parked_at = [None] * self.n    # location string where a client is parked
        self.in_op = [None] * self.n        # op id a client is in the middle of
        self.events = [threading.Event() for _ in range(self.n)]
        self.done = threading.Event()
        self.log = []           # plain data only
        self.stats = {
            "events": 0, "preempt_planned": 0, "preempt_fired": 0,
            "preempt_skipped": 0, "preempt_deferred": 0, "points_unfired": 0,
            "switches": 0,
        }
        self.harness_error = None
        self._code_cache = {}
        self._sha = hashlib.sha256() if deep_log else None
        self.points_by_op = {}
        for p in plan.get("points", []):
            self.points_by_op.setdefault(p["op"], []).append(p)
        for v in self.points_by_op.values():
            v.sort(key=lambda p: (p["at"], p.get("ord", 0)))
        self.stats["preempt_planned"] = sum(
            1 for p in plan.get("points", []) if p["kind"] == "preempt")
        self.threads = []

    # ------------------------------------------------------------------ logging
    def note(self, *rec):
        self.log.append(rec)

    def digest(self):
        h = hashlib.sha256()
        for rec in self.log:
            h.update(repr(rec).encode())
            h.update(b"\n")
        if self._sha is not None:
            h.update(self._sha.digest())
        return h.hexdigest()

    # ------------------------------------------------------------------ baton
    def _switch(self, frm, to, where):
        """Running client ``frm`` parks and ``to`` continues."""
        self._saved[frm] = (self.opev, self.next_at, self.op_budget, self.active,
                            self.cur_points, self.cur_op)
        self.parked_at[frm] = where
        self.stats["switches"] += 1
        ev = self.events[frm]
        self.current = to
        self.events[to].set()
        ev.wait()
        ev.clear()
        # resumed: somebody set self.current = frm
        (self.opev, self.next_at, self.op_budget, self.active,
         self.cur_points, self.cur_op) = self._saved[frm]
        self.parked_at[frm] = None

    def _next_other(self, cid):
        for k in range(1, self.n):
            c = (cid + k) % self.n
            if not self.finished[c]:
                return c
        return None

    def yield_to(self, cid, to, where):
        """Voluntary hand-over used by the engine (e.g. instance busy)."""
        self._switch(cid, to, where)

    # ------------------------------------------------------------------ tracing
    def _is_traced(self, code):
        try:
            return self._code_cache[code]
        except KeyError:
            v = self._code_cache[code] = bool(self.traced(code))
            return v

    def _global_trace(self, frame, event, arg):
        # called for every new frame in a client thread
        if not self.active:
            return None
        if not self._is_traced(frame.f_code):
            return None
        if self.opcode:
            frame.f_trace_opcodes = True
        return self._local_trace(frame, event, arg)

    def _local_trace(self, frame, event, arg):
        if not self.active:
            return self._local_trace
        self.seq += 1
        n = self.opev = self.opev + 1
        if self._sha is not None:
            co = frame.f_code
            self._sha.update(("%s %s %s %s %s\n" % (
                self.current, event, co.co_name, frame.f_lineno, frame.f_lasti)).encode())
        if frame.f_code in self.watch and event != "line" and event != "opcode":
            try:
                self.engine.on_watch(self, self.watch[frame.f_code], frame, event, arg)
            except BaseException as e:
                self.harness_error = "on_watch: %r" % (e,)
                raise Abort("harness-error")
        if n >= self.next_at:
            self._at_point(frame, event, arg, n)
        return self._local_trace

    def where(self, frame):
        co = frame.f_code
        return "%s:%s:%s" % (os.path.basename(co.co_filename), frame.f_lineno, co.co_name)

    def eligible(self, frame):
        """No foreign-library frame between the traced frame and the op frame."""
        f = frame
        while f is not None:
            co = f.f_code
            if co.co_filename in self.op_frame_files:
                return True
            if not self._is_traced(co):
                return False
            f = f.f_back
        return True

    def _at_point(self, frame, event, arg, n):
        try:
            if n > self.op_budget:
                self.note("no-progress", self.current, self.cur_op[2]["id"], n)
                self.engine.on_no_progress(self, self.cur_op)
                raise Abort("no-progress")
            pts = self.cur_points
            while pts and pts[0]["at"] <= n:
                p = pts[0]
                if p["kind"] == "preempt":
                    if not self.eligible(frame):
                        self.stats["preempt_deferred"] += 1
                        break
                    pts.pop(0)
                    self._preempt(frame, event, p, n)
                else:
                    pts.pop(0)
                    self.fire_fn(self, frame, event, p, n)
            if pts:
                self.next_at = max(pts[0]["at"], n + 1)
            else:
                self.next_at = self.op_budget + 1
        except Abort:
            raise
        except BaseException as e:  # harness bug: never let it look like library behaviour
            import traceback
            self.harness_error = "at_point: %r\n%s" % (e, traceback.format_exc())
            raise Abort("harness-error")

    def _preempt(self, frame, event, p, n):
        cid = self.current
        to = p.get("to")
        if to is None or to == cid or to >= self.n or self.finished[to]:
            to = self._next_other(cid)
        where = self.where(frame)
        if to is None:
            self.stats["preempt_skipped"] += 1
            self.note("preempt-skip", cid, self.cur_op[2]["id"], n, event, where)
            return
        self.stats["preempt_fired"] += 1
        self.note("preempt", cid, self.cur_op[2]["id"], n, event, where, to)
        self.engine.on_preempt(self, cid, to, frame, event, where)
        self._switch(cid, to, where)

    # ------------------------------------------------------------------ op bracket
    def begin_op(self, cid, opi, op, dry_events):
        """Engine calls this right before the op body."""
        self.cur_op = (cid, opi, op)
        self.cur_points = list(self.points_by_op.get(op["id"], ()))
        self.opev = 0
        base = max(dry_events, 200)
        self.op_budget = base * self.budget_factor
        self.next_at = self.cur_points[0]["at"] if self.cur_points else self.op_budget + 1
        self.in_op[cid] = op["id"]
        self.active = True

    def end_op(self, cid):
        self.active = False
        self.stats["events"] += self.opev
        self.stats["points_unfired"] += len(self.cur_points)
        for p in self.cur_points:
            self.note("unfired", p["op"], p["at"], p["kind"])
        self.cur_points = []
        self.in_op[cid] = None
        return self.opev

    # ------------------------------------------------------------------ threads
    def _client_main(self, cid):
        ev = self.events[cid]
        ev.wait()
        ev.clear()
        sys.settrace(self._global_trace)
        try:
            ops = self.plan["clients"][cid]["ops"]
            for opi, op in enumerate(ops):
                self.run_op_fn(self, cid, opi, op)
        except Abort:
            pass
        except BaseException as e:
            import traceback
            self.harness_error = "client %d: %r\n%s" % (cid, e, traceback.format_exc())
        finally:
            sys.settrace(None)
            self.active = False
            self.finished[cid] = True
            if self.harness_error is not None:
                # wake everybody up so the run ends; parked clients see the error
                self.aborting = True
            nxt = self._next_other(cid)
            if nxt is None:
                self.done.set()
            else:
                self.current = nxt
                self.events[nxt].set()

    aborting = False

    def run(self, timeout=60.0):
        self.threads = [
            threading.Thread(target=self._client_main, args=(c,), name="simclient-%d" % c,
                             daemon=True)
            for c in range(self.n)
        ]
        for t in self.threads:
            t.start()
        first = self.plan.get("start", 0) % self.n
        self.current = first
        self.events[first].set()
        if not self.done.wait(timeout):
            raise HarnessError("run did not finish within %.0fs wall (watchdog)" % timeout)
        for t in self.threads:
            t.join(timeout)
            if t.is_alive():
                raise HarnessError("client thread did not exit")
        if self.harness_error:
            raise HarnessError(self.harness_error)
        return self
