"""C20 engine: lexer and parser instances are reusable and deterministic.

Simulated caller threads drive pooled ODataLexer/ODataParser instances (and the
AliasRewriter, and the shorthands) through seeded histories of good and bad inputs under
the scheduler of sim/sched.py, with garbage-collector passes injected at planned ticks
(DESIGN.md 5).  The oracle is the property's own right-hand side: the outcome of a fresh
lexer and parser on the same string in a process that never did anything else
(sim/pristine.py).
"""
import gc
import os
import random
import sys
import weakref

from . import corpus, env
from .sched import Abort, Sim

CORE = None
PARSE_CODE = None
TOKENIZE_CODE = None
RESTART_CODE = None
TOKEN_ACTION_CODES = frozenset()
TOKEN_ACTION_NAMES = frozenset()
GRAMMAR_FILE = None
LEX_FILE = None
YACC_FILE = None
_ROOTS = ()
_THIS_FILE = os.path.abspath(__file__)
_HOSTS_FILE = os.path.join(os.path.dirname(_THIS_FILE), "host", "shorthand_hosts.py")
WATCH = {}    # code object -> tag, observed by Engine.on_watch
HOSTS = None  # set by init(with_hosts=True): shorthand hosts for sa_core/sa_orm/django ops


def init(with_hosts=False):
    global CORE, PARSE_CODE, TOKENIZE_CODE, RESTART_CODE, TOKEN_ACTION_CODES
    global TOKEN_ACTION_NAMES, GRAMMAR_FILE, LEX_FILE, YACC_FILE, _ROOTS, HOSTS
    if CORE is None:
        CORE = env.import_core()
        yacc, lex, grammar = CORE["yacc"], CORE["lex"], CORE["grammar"]
        PARSE_CODE = yacc.Parser.parse.__code__
        RESTART_CODE = yacc.Parser.restart.__code__
        TOKENIZE_CODE = lex.Lexer.tokenize.__code__
        funcs = getattr(grammar.ODataLexer, "_token_funcs", {})
        TOKEN_ACTION_CODES = frozenset(
            f.__code__ for f in funcs.values() if hasattr(f, "__code__"))
        TOKEN_ACTION_NAMES = frozenset(c.co_name for c in TOKEN_ACTION_CODES)
        GRAMMAR_FILE = os.path.abspath(grammar.__file__)
        LEX_FILE = os.path.abspath(lex.__file__)
        YACC_FILE = os.path.abspath(yacc.__file__)
        _ROOTS = (CORE["pkg_dir"] + os.sep, CORE["sly_dir"] + os.sep)
        import odata_query.visitor as _v
        WATCH[_v.NodeVisitor.visit.__code__] = "visit"
    if with_hosts and HOSTS is None:
        from .host import shorthand_hosts
        HOSTS = shorthand_hosts.build()
        import odata_query.django.django_q as _dq
        WATCH[_dq.AstToDjangoQVisitor.visit.__code__] = "visit"
    return CORE


def traced(code):
    fn = code.co_filename
    return fn.startswith(_ROOTS)


# --------------------------------------------------------------------------- outcomes
def canon_token(tok):
    if tok is None:
        return None
    return (getattr(tok, "type", None), repr(getattr(tok, "value", None)),
            getattr(tok, "index", None), getattr(tok, "lineno", None))


def _canon_attr(v):
    if v is None or isinstance(v, (bool, int, float, str)):
        return v
    if hasattr(v, "type") and hasattr(v, "value") and hasattr(v, "index"):
        return ("token",) + canon_token(v)
    if isinstance(v, (set, frozenset)):
        return ("set", tuple(sorted(repr(x) for x in v)))    # a set has no order
    if isinstance(v, (list, tuple)):
        return (type(v).__name__,) + tuple(_canon_attr(x) for x in v)
    if isinstance(v, dict):
        return ("dict", tuple(sorted((repr(k), repr(_canon_attr(x))) for k, x in v.items())))
    import re
    return re.sub(r" at 0x[0-9a-fA-F]+", "", repr(v))     # no addresses in outcomes


def canon_exc(e):
    """Everything a caller can observe of a raised exception: class, message and the
    public attributes (token, eof, function name, argument counts, ...)."""
    attrs = tuple(sorted((k, _canon_attr(v)) for k, v in vars(e).items()
                         if not k.startswith("__")))
    return ("exc", type(e).__name__, str(e), attrs)


def canon_ast(node):
    return ("ok", repr(node))


def canon_rewriter(rw, rewritten):
    reps = sorted((repr(k), repr(v)) for k, v in rw.replacements.items())
    return ("ok", tuple(reps), repr(rewritten))


# --------------------------------------------------------------------------- op bodies
# Each body runs the library exactly as a caller would.  These functions are the "op
# frame": the scheduler treats frames of this file as the boundary of the system.
def body_parse(op, lexer, parser):
    node = parser.parse(lexer.tokenize(op["text"]))
    return canon_ast(node), node


def body_parse_eager(op, lexer, parser):
    """Tokenising and parsing decoupled, as a caller that validates a batch does: the
    whole token list first, possibly another tokenisation in between, then the parse."""
    toks = list(lexer.tokenize(op["text"]))
    if op.get("other") is not None:
        try:
            list(lexer.tokenize(op["other"]))
        except Exception:
            pass
    node = parser.parse(iter(toks))
    return canon_ast(node), node


def _lazy2(text, other, lexer, parser):
    """Two token streams requested from one lexer up front, then parsed one after the
    other (a caller that prepares a batch).  Not the same as consuming them alternately,
    which nothing promises."""
    g1 = lexer.tokenize(text)
    g2 = lexer.tokenize(other)
    out = []
    for g in (g1, g2):
        try:
            out.append(canon_ast(parser.parse(g)))
        except Exception as e:
            out.append(canon_exc(e))
    return ("ok", tuple(out))


def body_parse_lazy2(op, lexer, parser):
    return _lazy2(op["text"], op["other"], lexer, parser), None


def body_tokenize_all(op, lexer, parser):
    return ("ok", tuple(canon_token(t) for t in lexer.tokenize(op["text"]))), None


def body_tokenize_partial(op, lexer, parser, keep):
    gen = lexer.tokenize(op["text"])
    out = []
    for _ in range(op["k"]):
        t = next(gen, None)
        if t is None:
            break
        out.append(canon_token(t))
    keep.append(gen)
    return ("ok", tuple(out)), None


def body_rewriter(op, lexer, parser):
    rewrite = CORE["rewrite"]
    aliases = dict(op["aliases"])
    if lexer is None:
        rw = rewrite.AliasRewriter(aliases)
        g = CORE["grammar"]
        lexer, parser = g.ODataLexer(), g.ODataParser()
    else:
        rw = rewrite.AliasRewriter(aliases, lexer=lexer, parser=parser)
    probe = parser.parse(lexer.tokenize(op["text"]))
    new = rw.visit(probe)
    return canon_rewriter(rw, new), (rw.replacements, new)


def run_body(op, lexer, parser, keep):
    k = op["kind"]
    if k == "parse":
        return body_parse(op, lexer, parser)
    if k == "parse_eager":
        return body_parse_eager(op, lexer, parser)
    if k == "parse_lazy2":
        return body_parse_lazy2(op, lexer, parser)
    if k == "tokenize_all":
        return body_tokenize_all(op, lexer, parser)
    if k == "tokenize_partial":
        return body_tokenize_partial(op, lexer, parser, keep)
    if k == "rewriter":
        return body_rewriter(op, lexer, parser)
    if k == "rewriter_default":
        return body_rewriter(op, None, None)
    if k in ("sa_core", "sa_orm", "django"):
        return HOSTS.call(k, op["text"])
    raise ValueError(k)


def op_request(op):
    """The oracle request (plain, hashable) that defines the expected outcome of op."""
    k = op["kind"]
    if k in ("sa_core", "sa_orm", "django"):
        # the same shorthand call, alone, in a pristine process
        return ("shorthand", k, op["text"])
    if k == "parse":
        return ("parse", op["text"])
    if k == "parse_eager":
        return ("parse_eager", op["text"])
    if k == "parse_lazy2":
        return ("parse_lazy2", op["text"], op["other"])
    if k == "tokenize_all":
        return ("tokens", op["text"])
    if k == "tokenize_partial":
        return ("partial", op["text"], op["k"])
    if k in ("rewriter", "rewriter_default"):
        return ("rewriter", tuple(tuple(a) for a in op["aliases"]), op["text"])
    raise ValueError(k)


def reference(req):
    """Evaluate a request on fresh instances, sequentially, untraced.  Runs in the
    pristine grandchild (the oracle) and in-process (cross-check)."""
    g = CORE["grammar"]
    kind = req[0]
    try:
        if kind == "parse":
            return canon_ast(g.ODataParser().parse(g.ODataLexer().tokenize(req[1])))
        if kind == "parse_lazy2":
            # the property's own right-hand side, per string: a fresh lexer and parser
            # each - not the two-streams procedure itself
            return ("ok", (reference(("parse", req[1])), reference(("parse", req[2]))))
        if kind == "parse_eager":
            toks = list(g.ODataLexer().tokenize(req[1]))
            return canon_ast(g.ODataParser().parse(iter(toks)))
        if kind == "tokens":
            return ("ok", tuple(canon_token(t) for t in g.ODataLexer().tokenize(req[1])))
        if kind == "partial":
            gen = g.ODataLexer().tokenize(req[1])
            out = []
            for _ in range(req[2]):
                t = next(gen, None)
                if t is None:
                    break
                out.append(canon_token(t))
            gen.close()
            return ("ok", tuple(out))
        if kind == "rewriter":
            rw = CORE["rewrite"].AliasRewriter(dict(req[1]))
            probe = g.ODataParser().parse(g.ODataLexer().tokenize(req[2]))
            return canon_rewriter(rw, rw.visit(probe))
    except Exception as e:
        return canon_exc(e)
    raise ValueError(req)


# --------------------------------------------------------------------------- dry runs
class DryTrace:
    """Event list of one op executed alone on fresh instances (for point placement and
    for the no-progress budget).  Counting rules are those of Sim."""

    def __init__(self, opcode):
        self.opcode = opcode
        self.events = []
        self.active = False

    def _g(self, frame, event, arg):
        if not self.active or not traced(frame.f_code):
            return None
        if self.opcode:
            frame.f_trace_opcodes = True
        return self._l(frame, event, arg)

    def _l(self, frame, event, arg):
        if self.active:
            co = frame.f_code
            self.events.append((event, co.co_filename, frame.f_lineno, co.co_name))
        return self._l

    def run(self, op):
        g = CORE["grammar"]
        lexer, parser = g.ODataLexer(), g.ODataParser()
        keep = []
        old = sys.gettrace()
        sys.settrace(self._g)
        try:
            self.active = True
            try:
                run_body(op, lexer, parser, keep)
            except Exception:
                pass
            finally:
                self.active = False
        finally:
            sys.settrace(old)
        for gen in keep:
            gen.close()
        return self.events


_SELF_TOKENS_LINE = None


def _self_tokens_line():
    global _SELF_TOKENS_LINE
    if _SELF_TOKENS_LINE is None:
        import inspect
        src, start = inspect.getsourcelines(CORE["yacc"].Parser.parse)
        _SELF_TOKENS_LINE = -1
        for i, line in enumerate(src):
            if "self.tokens = tokens" in line:
                _SELF_TOKENS_LINE = start + i
                break
    return _SELF_TOKENS_LINE


def interesting_positions(events):
    """1-based event numbers where in-flight state exists: inside token actions (and the
    scanner lines around them), at the parser's hand-over of the token stream, inside
    restart(), at grammar-action entry, right after an exception was raised."""
    out = {"action": [], "tokens_assign": [], "restart": [], "reduce": [], "raise": []}
    depth_action = 0
    tl = _self_tokens_line()
    for i, (ev, fn, line, name) in enumerate(events, 1):
        in_grammar = fn == GRAMMAR_FILE
        if in_grammar and name in TOKEN_ACTION_NAMES:
            if ev == "call":
                depth_action += 1
                if i > 1:
                    out["action"].append(i - 1)
            out["action"].append(i)
            if ev == "return":
                depth_action -= 1
                out["action"].append(i + 1)
        elif fn == YACC_FILE and name == "parse" and line == tl:
            # the parser drops its previous token stream here; when that stream is still
            # suspended its finalisation runs right after this event, so the following
            # ticks (which a dry run on fresh instances does not have) matter too
            out["tokens_assign"].extend(range(i, i + 14))
        elif fn == YACC_FILE and name == "restart":
            out["restart"].append(i)
        elif in_grammar and ev == "call":
            out["reduce"].append(i)
        elif ev == "exception":
            out["raise"].append(i)
    n = len(events)
    return {k: sorted({p for p in v if 1 <= p <= n}) for k, v in out.items()}


def dry_info(op, opcode):
    ev = DryTrace(opcode).run(op)
    return (len(ev), interesting_positions(ev))


def observe_shorthand(kind, text):
    """Call a shorthand once and report which AST it handed to its visitor (or the
    exception that left it before it got that far) - the same observation the scheduler
    makes inside a simulated run, here in a pristine process."""
    init(with_hosts=True)
    seen = []

    def g(frame, event, arg):
        if event == "call" and not seen and WATCH.get(frame.f_code) == "visit":
            seen.append(canon_ast(frame.f_locals.get("node")))
        return None

    old = sys.gettrace()
    sys.settrace(g)
    try:
        outcome, _ = HOSTS.call(kind, text)
    finally:
        sys.settrace(old)
    return seen[0] if seen else outcome


def oracle(req):
    """Handler of the pristine zygote: reference outcomes and dry-run traces are both
    computed in a process that never did anything else with the library."""
    if req[0] == "dry":
        import json
        return dry_info(json.loads(req[1]), req[2])
    if req[0] == "shorthand":
        return observe_shorthand(req[1], req[2])
    return reference(req)


class DryCache:
    """Dry-run info per op, computed by the pristine oracle (so that generating a plan
    never executes library code in the process that is about to run the plan)."""

    def __init__(self, pristine):
        self.pristine = pristine

    @staticmethod
    def _req(op, opcode):
        import json
        core = {k: op[k] for k in ("kind", "text", "k", "aliases", "other") if k in op}
        return ("dry", json.dumps(core, sort_keys=True), bool(opcode))

    def prefetch(self, ops, opcode):
        self.pristine.ask_many([self._req(op, opcode) for op in ops])

    def get(self, op, opcode):
        n, inter = self.pristine.ask(self._req(op, opcode))
        return n, inter


# --------------------------------------------------------------------------- run state
class RunState:
    def __init__(self, plan):
        g = CORE["grammar"]
        self.lexers = [g.ODataLexer() for _ in range(plan["n_lexers"])]
        self.parsers = [g.ODataParser() for _ in range(plan["n_parsers"])]
        self.lex_holder = [None] * plan["n_lexers"]
        self.par_holder = [None] * plan["n_parsers"]
        self.lex_last = [None] * plan["n_lexers"]   # (client, "ok"|"abort"|"partial")
        self.par_last = [None] * plan["n_parsers"]
        self.in_action = [False] * len(plan["clients"])   # for parked clients
        self.in_parse = [False] * len(plan["clients"])
        self.last_parse = [None] * len(plan["clients"])   # outcome of the latest Parser.parse
        self.used_ast = [None] * len(plan["clients"])     # AST handed to the visitor
        self.limbo = []          # weakrefs to the cycle cells of lingering aborts
        self.streams = {}        # key -> info of tracked suspended token streams
        self.stream_seq = 0
        self.in_gc = None        # info of the gc fault being executed
        self.results = []        # (op id, returned outcome, reference) for late checks
        self.returned = []       # (op id, live object handed out, repr at return)
        self.violations = []
        self.outcomes = {}
        self.probes = {k: 0 for k in PROBES}
        self.faults = {k: 0 for k in FAULTS}


PROBES = [
    "gc_victim_in_action_same_thread", "gc_victim_in_action_other_thread",
    "gc_victim_midscan", "gc_victim_idle", "gc_victim_fresh_lexer",
    "prompt_close_victim_in_action", "prompt_close_victim_midscan",
    "prompt_close_victim_idle", "prompt_close_in_other_thread_than_creator",
    "parser_reentered_with_leftover_stacks", "lexer_reused_after_abort",
    "lexer_reused_after_partial", "instance_handover_after_abort",
    "rewriter_aborted_then_instances_reused", "preempt_inside_token_action",
    "preempt_inside_restart", "preempt_inside_reduction", "preempt_inside_parse",
    "two_clients_inside_parse", "blocked_on_busy_instance",
    "preempt_inside_shorthand_parse",
]
FAULTS = [
    "consumer_abort", "action_abort", "producer_abort", "abandoned_partial_stream",
    "lingering_exception", "gc_pass", "gc_pass_finalised_stream",
    "prompt_finalisation", "handover_after_abort", "preemption",
]


class Engine:
    """Glue between Sim and the library for one run."""

    def __init__(self, plan, refs, dry, opcode):
        self.plan = plan
        self.refs = refs      # request -> expected outcome (pristine)
        self.dry = dry
        self.opcode = opcode
        self.st = RunState(plan)

    # ------------------------------------------------------------- stack inspection
    @staticmethod
    def _stack_flags(frame):
        in_action = in_restart = in_reduce = in_parse = False
        f = frame
        while f is not None:
            co = f.f_code
            if co in TOKEN_ACTION_CODES:
                in_action = True
            elif co is RESTART_CODE:
                in_restart = True
            elif co is PARSE_CODE:
                in_parse = True
            elif co.co_filename == GRAMMAR_FILE and co.co_name not in ("tokenize",):
                in_reduce = True
            elif co.co_filename == _THIS_FILE:
                break
            f = f.f_back
        return in_action, in_restart, in_reduce, in_parse

    @staticmethod
    def _in_action_window(frame, event):
        """Inside a token action, or on the scanner lines between publishing the position
        on the lexer instance and reading it back."""
        f = frame
        while f is not None:
            co = f.f_code
            if co in TOKEN_ACTION_CODES:
                return True
            if co.co_filename == _THIS_FILE:
                return False
            f = f.f_back
        return False

    # ------------------------------------------------------------- scheduler callbacks
    def on_preempt(self, sim, cid, to, frame, event, where):
        st = self.st
        ia, ir, ired, ip = self._stack_flags(frame)
        st.in_action[cid] = ia
        st.in_parse[cid] = ip
        st.faults["preemption"] += 1
        if ia:
            st.probes["preempt_inside_token_action"] += 1
        if ir:
            st.probes["preempt_inside_restart"] += 1
        if ired and not ia:
            st.probes["preempt_inside_reduction"] += 1
        if ip:
            st.probes["preempt_inside_parse"] += 1
            if sim.cur_op[2]["kind"] in ("sa_core", "sa_orm", "django"):
                st.probes["preempt_inside_shorthand_parse"] += 1
            if any(st.in_parse[c] for c in range(sim.n) if c != cid and sim.in_op[c]):
                st.probes["two_clients_inside_parse"] += 1

    def on_watch(self, sim, tag, frame, event, arg):
        """Which AST a shorthand handed to its visitor (first call of NodeVisitor.visit
        in the op) - however it got it (its own parse call, a subclass override, a
        cache)."""
        cid = sim.current
        if tag == "visit" and event == "call" and self.st.used_ast[cid] is None:
            node = frame.f_locals.get("node")
            self.st.used_ast[cid] = canon_ast(node)

    def on_no_progress(self, sim, cur_op):
        cid, opi, op = cur_op
        self.st.violations.append({
            "kind": "no-progress", "op": op["id"], "op_kind": op["kind"],
            "text": op.get("text"), "expected": None, "got": "op exceeded %dx its dry-run "
            "event count" % sim.budget_factor})

    def fire(self, sim, frame, event, p, n):
        if p["kind"] != "gc":
            raise ValueError("unknown point kind %r" % (p,))
        st = self.st
        cid = sim.current
        st.in_action[cid] = self._in_action_window(frame, event)
        info = {"client": cid, "finalised": 0, "victims": []}
        st.in_gc = info
        st.faults["gc_pass"] += 1
        try:
            gc.collect()
        finally:
            st.in_gc = None
        if info["finalised"]:
            st.faults["gc_pass_finalised_stream"] += 1
        sim.note("gc", cid, sim.cur_op[2]["id"], n, event, sim.where(frame),
                 info["finalised"], tuple(info["victims"]))

    # ------------------------------------------------------------- stream tracking
    def _track_stream(self, sim, gen, lexer_idx, cid, opid):
        st = self.st
        st.stream_seq += 1
        key = st.stream_seq

        def died(_ref, key=key, self=self, sim=sim):
            self._stream_died(sim, key)

        try:
            ref = weakref.ref(gen, died)
        except TypeError:
            return
        st.streams[key] = {"ref": ref, "lexer": lexer_idx, "creator": cid, "op": opid}

    def _stream_died(self, sim, key):
        st = self.st
        info = st.streams.pop(key, None)
        if info is None:
            return
        li = info["lexer"]
        cur = sim.current
        if li < 0:
            cls = "fresh_lexer"
        else:
            holder = st.lex_holder[li]
            if holder is None:
                cls = "idle"
            else:
                if holder == cur and st.in_gc is None:
                    # natural close in the holder's own thread: it cannot be inside an
                    # action of that lexer right now unless the close happened there
                    ia = False
                else:
                    ia = st.in_action[holder]
                if ia:
                    cls = "in_action_same_thread" if holder == cur else "in_action_other_thread"
                else:
                    cls = "midscan"
        if st.in_gc is not None:
            st.in_gc["finalised"] += 1
            st.in_gc["victims"].append(cls)
            st.probes["gc_victim_" + cls] += 1
        else:
            st.faults["prompt_finalisation"] += 1
            k = {"in_action_same_thread": "in_action", "in_action_other_thread": "in_action",
                 "midscan": "midscan"}.get(cls, "idle")
            st.probes["prompt_close_victim_" + k] += 1
            if cur != info["creator"]:
                st.probes["prompt_close_in_other_thread_than_creator"] += 1
            if sim.current is not None:
                sim.note("prompt-close", cur, info["op"], cls)

    def _find_streams(self, e):
        gens = []
        tb = e.__traceback__
        while tb is not None:
            f = tb.tb_frame
            if f.f_code is PARSE_CODE:
                g = f.f_locals.get("tokens")
                if g is not None and hasattr(g, "gi_frame"):
                    gens.append(g)
            tb = tb.tb_next
        return gens

    def _on_abort(self, sim, e, op, li, cid, parser):
        """Book-keeping for an op that raised.  Everything that could keep the token
        stream alive is local to this call and gone when it returns."""
        st = self.st
        suspended = False
        for gen in self._find_streams(e):
            if gen.gi_frame is not None:
                suspended = True
                self._track_stream(sim, gen, li, cid, op["id"])
        gen = None
        name = type(e).__name__
        if name == "ParsingException" and suspended:
            st.faults["consumer_abort"] += 1
        elif name == "TokenizingException":
            if parser is not None and len(getattr(parser, "symstack", ())) > 1:
                st.faults["producer_abort"] += 1
        elif name in ("UnknownFunctionException", "ArgumentCountException"):
            st.faults["action_abort"] += 1
        if op.get("linger"):
            # the reference cycle an `except ... as e: saved = e` handler creates; only
            # a pass of the cyclic collector can free it (and finalise the stream)
            st.faults["lingering_exception"] += 1
            cell = [e]
            cell.append(cell)

    # ------------------------------------------------------------- one op
    def run_op(self, sim, cid, opi, op):
        st = self.st
        li, pj = op.get("lexer", -1), op.get("parser", -1)
        kind = op["kind"]
        if kind in ("rewriter_default", "sa_core", "sa_orm", "django"):
            li = pj = -1
        # acquire pooled instances; the baton holder is the only one running, so
        # test-and-set is atomic
        while True:
            h = None
            if li >= 0 and st.lex_holder[li] not in (None, cid):
                h = st.lex_holder[li]
            elif pj >= 0 and st.par_holder[pj] not in (None, cid):
                h = st.par_holder[pj]
            if h is None:
                break
            st.probes["blocked_on_busy_instance"] += 1
            sim.note("blocked", cid, op["id"], h)
            sim.yield_to(cid, h, "blocked")
        g = CORE["grammar"]
        if li >= 0:
            st.lex_holder[li] = cid
            lexer = st.lexers[li]
            last = st.lex_last[li]
            if last is not None:
                if last[1] == "abort":
                    st.probes["lexer_reused_after_abort"] += 1
                    if last[0] != cid:
                        st.probes["instance_handover_after_abort"] += 1
                        st.faults["handover_after_abort"] += 1
                elif last[1] == "partial":
                    st.probes["lexer_reused_after_partial"] += 1
                elif last[1] == "rewriter-abort":
                    st.probes["rewriter_aborted_then_instances_reused"] += 1
        else:
            lexer = g.ODataLexer() if kind in ("parse", "parse_eager", "parse_lazy2", "tokenize_all",
                                               "tokenize_partial", "rewriter") else None
        if pj >= 0:
            st.par_holder[pj] = cid
            parser = st.parsers[pj]
            if len(getattr(parser, "symstack", ())) > 1 or getattr(parser, "tokens", None) is not None and getattr(getattr(parser, "tokens", None), "gi_frame", None) is not None:
                st.probes["parser_reentered_with_leftover_stacks"] += 1
            last = st.par_last[pj]
            if last is not None and last[1] == "abort" and last[0] != cid:
                st.probes["instance_handover_after_abort"] += 1
        else:
            parser = g.ODataParser() if kind in ("parse", "parse_eager", "parse_lazy2",
                                                 "rewriter") else None

        dry_n, _ = self.dry.get(op, self.opcode)
        keep = []
        status = "ok"
        sim.note("op-start", cid, op["id"], kind, li, pj)
        try:
            st.last_parse[cid] = None
            st.used_ast[cid] = None
            sim.begin_op(cid, opi, op, dry_n)
            try:
                outcome, live = run_body(op, lexer, parser, keep)
                sim.active = False
            except Abort:
                raise
            except Exception as e:
                sim.active = False
                status = "abort"
                outcome = canon_exc(e)
                live = None
                self._on_abort(sim, e, op, li, cid, parser)
            nev = sim.end_op(cid)
            if keep:
                # tokenize_partial: the stream is abandoned
                gen = keep.pop()
                if gen.gi_frame is not None:
                    status = "partial"
                    st.faults["abandoned_partial_stream"] += 1
                    self._track_stream(sim, gen, li, cid, op["id"])
                    if op.get("linger"):
                        cell = [gen]
                        cell.append(cell)
                        del cell
                del gen
            if kind == "rewriter" and status == "abort":
                status = "rewriter-abort"
            # verdict for this op, the moment it ends
            req = op_request(op)
            expected = self.refs[req]
            if kind in ("sa_core", "sa_orm", "django"):
                # the AST the shorthand worked with; if it never got as far as its
                # visitor, the exception it raised (its parse stage failed)
                got = st.used_ast[cid] if st.used_ast[cid] is not None else outcome
            else:
                got = outcome
            st.outcomes[op["id"]] = got
            if live is not None:
                st.returned.append((op["id"], kind, op.get("text"), live, repr(live)))
                live = None
            sim.note("op-end", cid, op["id"], nev, status, got == expected)
            if got != expected:
                st.violations.append({
                    "kind": "internal-sharing" if li < 0 and pj < 0 else "outcome-mismatch",
                    "op": op["id"], "op_kind": kind, "text": op.get("text"),
                    "expected": expected, "got": got})
        finally:
            sim.active = False
            # drop fresh instances first (their streams are finalised here, while the
            # pooled instances are still held), then release the pool
            lexer = parser = None
            if li >= 0:
                st.lex_last[li] = (cid, status)
                st.lex_holder[li] = None
            if pj >= 0:
                st.par_last[pj] = (cid, status)
                st.par_holder[pj] = None


# --------------------------------------------------------------------------- execution
def all_ops(plan):
    for c in plan["clients"]:
        for op in c["ops"]:
            yield op


def execute(plan, pristine, dry, deep=False, timeout=60.0):
    """Run one plan.  Returns a plain-data result dict.  Never raises for a property
    violation; raises HarnessError (from Sim.run) for machinery failures."""
    init(with_hosts=any(op["kind"] in ("sa_core", "sa_orm", "django") for op in all_ops(plan)))
    opcode = plan.get("granularity", "line") == "opcode"
    reqs = [op_request(op) for op in all_ops(plan)]
    refs = dict(zip(reqs, pristine.ask_many(reqs)))
    eng = Engine(plan, refs, dry, opcode)
    st = eng.st
    sim = Sim(plan, traced, eng.run_op, eng.fire, engine=eng, deep_log=deep,
              op_frame_files=[_THIS_FILE, _HOSTS_FILE], watch_code=WATCH)
    gc_was = gc.isenabled()
    gc.disable()
    try:
        sim.run(timeout=timeout)
        # checks over the recorded history
        for opid, kind, text, live, r0 in st.returned:
            r1 = repr(live)
            if r1 != r0:
                st.violations.append({
                    "kind": "late-change-of-returned-value", "op": opid, "op_kind": kind,
                    "text": text, "expected": r0, "got": r1})
        for req in sorted(set(reqs), key=repr):
            if req[0] == "shorthand":
                continue
            got = reference(req)
            if got != refs[req]:
                st.violations.append({
                    "kind": "fresh-instance-history", "op": None, "op_kind": req[0],
                    "text": req[1] if req[0] != "rewriter" else repr(req[1:]),
                    "expected": refs[req], "got": got})
        leftover_before = len(st.streams)
        st.returned = []
        sim.current = None
        gc.collect()
        leftover = len(st.streams)
    finally:
        if gc_was:
            gc.enable()
    points = [(p["op"], p["at"], p["kind"]) for p in plan.get("points", [])]
    sig_src = [r for r in sim.log if r[0] in ("preempt", "gc", "prompt-close", "blocked")]
    res = {
        "violations": st.violations,
        "digest": sim.digest(),
        "events": sim.stats["events"],
        "stats": dict(sim.stats),
        "probes": dict(st.probes),
        "faults": dict(st.faults),
        "schedule_sig": repr([(r[0], r[1]) + tuple(r[4:6]) for r in sig_src] +
                             [(op["kind"], op.get("lexer", -1), op.get("parser", -1))
                              for op in all_ops(plan)]),
        "where": sorted({r[5] for r in sim.log if r[0] in ("preempt", "gc")}),
        "leftover_streams": leftover,
        "nontrivial": bool(
            st.probes["parser_reentered_with_leftover_stacks"]
            or st.probes["lexer_reused_after_abort"] or st.probes["lexer_reused_after_partial"]
            or st.probes["rewriter_aborted_then_instances_reused"]
            or sim.stats["preempt_fired"] or st.faults["gc_pass_finalised_stream"]
            or st.faults["prompt_finalisation"]),
        "log": sim.log if deep else None,
        "n_ops": len(reqs),
    }
    return res


# --------------------------------------------------------------------------- plans
def text_pool(seed, n=240):
    rng = random.Random(seed * 7919 + 13)
    pool = {"valid": list(corpus.FIXED), "bad": list(corpus.FIXED_BAD)}
    for _ in range(n):
        cls, t = corpus.any_text(rng)
        pool["valid" if cls in ("valid", "neardup") else "bad"].append(t)
        if cls == "valid" and rng.random() < 0.25:
            pool["valid"].append(corpus.near_duplicate(rng, t))
    return pool


ALIAS_KEYS = ["n", "a", "who", "auth/nm", "x", "r", "ttl"]
ALIAS_TARGETS = ["name", "author/name", "post/author/name", "tolower(name)", "rating",
                 "title", "concat(first, last)", "ns.field", "a add 1"]
ALIAS_BAD_KEYS = ["a b", "n eq", "#", "foo(", "1 1"]
ALIAS_BAD_TARGETS = ["name eq", "foo(x)", "tolower(a, b)", "#x", "(a"]


def gen_aliases(rng):
    n = rng.choice([1, 2, 2, 3])
    keys = rng.sample(ALIAS_KEYS, n)
    pairs = [[k, rng.choice(ALIAS_TARGETS)] for k in keys]
    if rng.random() < 0.35:
        i = rng.randrange(len(pairs) + 1)
        if rng.random() < 0.5:
            pairs.insert(i, [rng.choice(ALIAS_BAD_KEYS), rng.choice(ALIAS_TARGETS)])
        else:
            pairs.insert(i, [rng.choice(ALIAS_KEYS) + "2", rng.choice(ALIAS_BAD_TARGETS)])
    return pairs


def gen_probe_for_aliases(rng, pairs):
    ks = [k for k, _ in pairs if k in ALIAS_KEYS]
    if not ks:
        ks = ["n"]
    k = rng.choice(ks)
    form = rng.randrange(5)
    if form == 0:
        return "%s eq 'x'" % k
    if form == 1:
        return "contains(%s, 'a') and %s ne null" % (k, rng.choice(ks))
    if form == 2:
        return "%s/%s gt 1 or other/%s eq 2" % (k, "sub", k)
    if form == 3:
        return "items/any(i: i/%s eq %s)" % (k, k)
    return "%s in (1, 2) and name eq '%s'" % (k, k)


def gen_directed_fin(rng, seed, run, pool, dry):
    """Directed scenario: client 0 re-uses a parser that still references the suspended
    stream of its earlier aborted parse and is pre-empted *while that stream is being
    finalised*; client 1 then starts a tokenisation of its own and is pre-empted inside a
    token action; client 0 finishes the finalisation; client 1 continues."""
    opcode = rng.random() < 0.1
    bad = rng.choice(pool["bad"])
    a1 = rng.choice(pool["valid"])
    b0t = rng.choice(pool["valid"])
    share_lexer = rng.random() < 0.3
    o0 = {"id": "c0o0", "kind": "parse", "text": bad, "lexer": 0, "parser": 0, "linger": False}
    o1 = {"id": "c0o1", "kind": "parse", "text": a1, "lexer": 0, "parser": 0, "linger": False}
    b0 = {"id": "c1o0", "kind": rng.choice(["parse", "parse", "tokenize_all", "sa_core"]),
          "text": b0t, "lexer": 1, "parser": 1, "linger": False}
    plan = {"property": "C20", "seed": seed, "run": run,
            "granularity": "opcode" if opcode else "line", "n_lexers": 2, "n_parsers": 2,
            "start": 0, "clients": [{"ops": [o0, o1]}, {"ops": [b0]}], "points": [],
            "directed": "fin"}
    n1, inter1 = dry.get(o1, opcode)
    ta = inter1["tokens_assign"] or [1]
    plan["points"].append({"op": "c0o1", "at": rng.choice(ta) + rng.randint(0, 10 if not opcode else 60),
                           "kind": "preempt", "to": 1})
    nb, interb = dry.get(b0, opcode)
    acts = interb["action"] or [max(1, nb // 2)]
    plan["points"].append({"op": "c1o0", "at": rng.choice(acts), "kind": "preempt", "to": 0})
    for i, p in enumerate(plan["points"]):
        p["ord"] = i
    return plan


def gen_directed(rng, seed, run, pool, dry):
    """Directed scenario (about one run in eight): client 0 aborts a parse on lexer 0,
    starts a second tokenisation on the same lexer and is pre-empted inside a token
    action; client 1 then makes the stale stream die - either by re-using the parser
    that still references it (prompt close in another thread) or through a collector
    pass (lingering exception).  Texts, positions and the rest stay random."""
    if rng.random() < 0.3:
        return gen_directed_fin(rng, seed, run, pool, dry)
    via_gc = rng.random() < 0.5
    opcode = rng.random() < 0.1
    bad = rng.choice(pool["bad"])
    good = rng.choice(pool["valid"])
    other = rng.choice(pool["valid"] + pool["bad"])
    o0 = {"id": "c0o0", "kind": "parse", "text": bad, "lexer": 0,
          "parser": -1 if via_gc else 0, "linger": via_gc}
    o1 = {"id": "c0o1", "kind": rng.choice(["parse", "parse", "tokenize_all"]), "text": good,
          "lexer": 0, "parser": 1, "linger": False}
    b0 = {"id": "c1o0", "kind": "parse", "text": other, "lexer": 1,
          "parser": 2 if via_gc else 0, "linger": False}
    plan = {"property": "C20", "seed": seed, "run": run,
            "granularity": "opcode" if opcode else "line", "n_lexers": 2, "n_parsers": 3,
            "start": 0, "clients": [{"ops": [o0, o1]}, {"ops": [b0]}], "points": [],
            "directed": "gc" if via_gc else "prompt"}
    if rng.random() < 0.5:
        plan["clients"][1]["ops"].append(
            {"id": "c1o1", "kind": "parse", "text": rng.choice(pool["valid"]),
             "lexer": rng.randrange(2), "parser": rng.randrange(3), "linger": False})
    n1, inter1 = dry.get(o1, opcode)
    acts = inter1["action"] or [max(1, n1 // 2)]
    plan["points"].append({"op": "c0o1", "at": rng.choice(acts), "kind": "preempt", "to": 1})
    nb, interb = dry.get(b0, opcode)
    if via_gc:
        plan["points"].append({"op": "c1o0", "at": rng.randint(1, max(1, nb)), "kind": "gc"})
    for i, p in enumerate(plan["points"]):
        p["ord"] = i
    return plan


def gen_plan(seed, run, pool, dry, shorthand=False, max_clients=4, max_ops=5):
    rng = random.Random(seed * 1000003 + run)
    if max_clients >= 2 and rng.random() < 0.125:
        return gen_directed(rng, seed, run, pool, dry)
    nclients = rng.choice([1, 1, 1, 2, 2, 2, 2, 3, 3, 4][:max(1, min(10, 3 + 2 * max_clients - 2))])
    nclients = min(nclients, max_clients)
    nl = rng.randint(1, 3)
    np_ = rng.randint(1, 3)
    opcode = rng.random() < 0.12
    clients = []
    used_texts = []
    for c in range(nclients):
        nops = rng.randint(1, max_ops)
        ops = []
        for o in range(nops):
            r = rng.random()
            op = {"id": "c%do%d" % (c, o)}
            if shorthand and r < 0.18:
                op["kind"] = rng.choice(["sa_core", "sa_orm", "django"])
            elif r < 0.66:
                op["kind"] = "parse"
            elif r < 0.695:
                op["kind"] = "parse_eager"
            elif r < 0.72:
                op["kind"] = "parse_lazy2"
            elif r < 0.80:
                op["kind"] = "tokenize_partial"
            elif r < 0.85:
                op["kind"] = "tokenize_all"
            elif r < 0.96:
                op["kind"] = "rewriter"
            else:
                op["kind"] = "rewriter_default"
            bad = rng.random() < (0.45 if o < nops - 1 else 0.25)
            if op["kind"] in ("rewriter", "rewriter_default"):
                op["aliases"] = gen_aliases(rng)
                op["text"] = gen_probe_for_aliases(rng, op["aliases"])
            else:
                op["text"] = rng.choice(pool["bad"] if bad else pool["valid"])
                if used_texts and rng.random() < 0.22:
                    # the same string again, or one that collides with it under sloppy
                    # normalisation (case, blanks): what a cache keyed too coarsely needs
                    prev = rng.choice(used_texts)
                    op["text"] = prev if rng.random() < 0.6 else corpus.near_duplicate(rng, prev)
                used_texts.append(op["text"])
            if op["kind"] == "tokenize_partial":
                op["k"] = rng.randint(1, 6)
            if op["kind"] == "parse_eager" and rng.random() < 0.7:
                op["other"] = rng.choice(pool["valid"] + pool["bad"])
            if op["kind"] == "parse_lazy2":
                op["other"] = rng.choice(pool["valid"] + pool["bad"])
            if op["kind"] in ("parse", "parse_eager", "parse_lazy2", "tokenize_partial",
                              "tokenize_all", "rewriter"):
                op["lexer"] = rng.randrange(nl) if rng.random() < 0.85 else -1
                op["parser"] = rng.randrange(np_) if rng.random() < 0.8 else -1
            op["linger"] = rng.random() < 0.45
            ops.append(op)
        clients.append({"ops": ops})
    plan = {
        "property": "C20", "seed": seed, "run": run,
        "granularity": "opcode" if opcode else "line",
        "n_lexers": nl, "n_parsers": np_, "start": rng.randrange(nclients),
        "clients": clients, "points": [],
    }
    flat = list(all_ops(plan))
    # --- schedule and fault points
    faulty = rng.random() < 0.55
    n_gc = rng.choice([1, 1, 2, 3]) if faulty else 0
    n_pre = 0 if nclients == 1 else rng.choice([0, 1, 2, 2, 3, 4, 6])
    lens = {}
    dry.prefetch(flat, opcode)
    for op in flat:
        lens[op["id"]] = dry.get(op, opcode)

    def place(op):
        n, inter = lens[op["id"]]
        n = max(n, 1)
        if rng.random() < 0.5:
            cats = [k for k in sorted(inter) if inter[k]]
            if cats:
                return rng.choice(inter[rng.choice(cats)])
        if rng.random() < 0.1:
            return 1
        return rng.randint(1, n + 2)

    for _ in range(n_gc):
        # a collector pass only matters after some op could have left garbage behind:
        # prefer ops that are not the very first of the first client
        cands = [op for op in flat if not op["id"].endswith("o0")] or flat
        op = rng.choice(cands if rng.random() < 0.7 else flat)
        plan["points"].append({"op": op["id"], "at": place(op), "kind": "gc"})
    for _ in range(n_pre):
        op = rng.choice(flat)
        cid = int(op["id"][1:op["id"].index("o")])
        others = [c for c in range(nclients) if c != cid]
        plan["points"].append({"op": op["id"], "at": place(op), "kind": "preempt",
                               "to": rng.choice(others)})
    for i, p in enumerate(plan["points"]):
        p["ord"] = i
    return plan


# --------------------------------------------------------------------------- minimiser
def violation_class(v):
    return (v["kind"], v["op_kind"])


def _drop_client(plan, k):
    import copy
    p = copy.deepcopy(plan)
    gone = {op["id"] for op in p["clients"][k]["ops"]}
    del p["clients"][k]
    pts = []
    for pt in p["points"]:
        if pt["op"] in gone:
            continue
        if pt.get("to") is not None:
            if pt["to"] == k:
                pt["to"] = None
            elif pt["to"] > k:
                pt["to"] -= 1
        pts.append(pt)
    p["points"] = pts
    st = p.get("start", 0)
    p["start"] = 0 if st == k else (st - 1 if st > k else st)
    return p


def shrink_candidates(plan):
    import copy
    n = len(plan["clients"])
    # 1. whole clients
    if n > 1:
        for k in range(n):
            yield _drop_client(plan, k)
    # 2. single ops
    for ci, c in enumerate(plan["clients"]):
        for oi, op in enumerate(c["ops"]):
            if len(c["ops"]) == 1:
                continue
            p = copy.deepcopy(plan)
            del p["clients"][ci]["ops"][oi]
            p["points"] = [pt for pt in p["points"] if pt["op"] != op["id"]]
            yield p
    # 3. points
    for i in range(len(plan["points"])):
        p = copy.deepcopy(plan)
        del p["points"][i]
        yield p
    # 4. knobs
    if plan.get("granularity") == "opcode":
        p = copy.deepcopy(plan)
        p["granularity"] = "line"
        yield p
    for ci, c in enumerate(plan["clients"]):
        for oi, op in enumerate(c["ops"]):
            if op.get("linger"):
                p = copy.deepcopy(plan)
                p["clients"][ci]["ops"][oi]["linger"] = False
                yield p
            for key in ("parser", "lexer"):
                if op.get(key, -1) >= 0:
                    p = copy.deepcopy(plan)
                    p["clients"][ci]["ops"][oi][key] = -1
                    yield p
            if op["kind"] in ("rewriter", "tokenize_all", "parse_eager"):
                p = copy.deepcopy(plan)
                q = p["clients"][ci]["ops"][oi]
                q["kind"] = "parse"
                q.pop("aliases", None)
                yield p
            if op.get("aliases") and len(op["aliases"]) > 1:
                for ai in range(len(op["aliases"])):
                    p = copy.deepcopy(plan)
                    del p["clients"][ci]["ops"][oi]["aliases"][ai]
                    yield p
            if op.get("k", 0) > 1:
                p = copy.deepcopy(plan)
                p["clients"][ci]["ops"][oi]["k"] = 1
                yield p
    # 5. instance pool compaction
    for key, cnt in (("lexer", "n_lexers"), ("parser", "n_parsers")):
        used = sorted({op.get(key, -1) for op in all_ops(plan) if op.get(key, -1) >= 0})
        if plan[cnt] > max(len(used), 1) or used != list(range(len(used))):
            p = copy.deepcopy(plan)
            m = {u: i for i, u in enumerate(used)}
            for op in all_ops(p):
                if op.get(key, -1) >= 0:
                    op[key] = m[op[key]]
            p[cnt] = max(len(used), 1)
            yield p
    # 6. shorter texts
    for ci, c in enumerate(plan["clients"]):
        for oi, op in enumerate(c["ops"]):
            t = op.get("text")
            if t is None or op["kind"] in ("rewriter", "rewriter_default"):
                continue
            alts = [a for a in corpus.FIXED + corpus.FIXED_BAD if len(a) < len(t)]
            alts.sort(key=len)
            for a in alts[:12]:
                p = copy.deepcopy(plan)
                p["clients"][ci]["ops"][oi]["text"] = a
                yield p
    # 6b. shorter texts by cutting: halves, then single blank-separated words
    for ci, c in enumerate(plan["clients"]):
        for oi, op in enumerate(c["ops"]):
            for key in ("text", "other"):
                t = op.get(key)
                if not t or len(t) < 4 or op["kind"] in ("rewriter", "rewriter_default"):
                    continue
                cuts = [t[:len(t) // 2], t[len(t) // 2:]]
                words = t.split(" ")
                if 2 <= len(words) <= 12:
                    cuts += [" ".join(words[:i] + words[i + 1:]) for i in range(len(words))]
                for cut in cuts:
                    if cut and cut != t:
                        p = copy.deepcopy(plan)
                        p["clients"][ci]["ops"][oi][key] = cut
                        yield p
    # 6c. two clients with one op each -> one client (only if it still fails)
    if len(plan["clients"]) == 2 and not any(pt["kind"] == "preempt" for pt in plan["points"]):
        p = copy.deepcopy(plan)
        p["clients"] = [{"ops": p["clients"][0]["ops"] + p["clients"][1]["ops"]}]
        p["start"] = 0
        yield p
    # 7. earlier points (smaller numbers read better)
    for i, pt in enumerate(plan["points"]):
        if pt["at"] > 1:
            for at in (1, pt["at"] // 2, pt["at"] - 1):
                if 1 <= at < pt["at"]:
                    p = copy.deepcopy(plan)
                    p["points"][i]["at"] = at
                    yield p


# --------------------------------------------------------------------------- engine API
_W = {}


def worker_setup(opts):
    """Called once per worker process, before the process has parsed anything."""
    from . import pristine
    init(with_hosts=bool(opts.get("shorthand")))
    from .sched import warm_up_opcode_tracing
    warm_up_opcode_tracing()
    _W["pristine"] = pristine.Pristine(oracle)
    _W["dry"] = DryCache(_W["pristine"])
    _W["pools"] = {}
    _W["opts"] = opts
    gc.collect()
    gc.freeze()
    gc.disable()


def get_pristine():
    return _W["pristine"]


def make_plan(seed, run, opts=None):
    opts = opts or _W.get("opts") or {}
    pool = _W["pools"].get(seed)
    if pool is None:
        pool = _W["pools"][seed] = text_pool(seed)
    return gen_plan(seed, run, pool, _W["dry"], shorthand=bool(opts.get("shorthand")),
                    max_clients=opts.get("max_clients", 4), max_ops=opts.get("max_ops", 5))


def run_plan(plan, deep=False):
    return execute(plan, _W["pristine"], _W["dry"], deep=deep)


def worker_teardown():
    pr = _W.pop("pristine", None)
    if pr is not None:
        pr.close()


def is_known(v, plan):
    from . import known
    return known.match("C20", v, plan, KNOWN_MATCHERS)


def prepare_opts(opts):
    return opts


def plan_is_faulty(plan):
    """Fault-carrying = at least one injected collector pass; the rest are pure
    history / interleaving runs (tallied separately in the evidence)."""
    return any(p["kind"] == "gc" for p in plan.get("points", ()))


def describe_violation(v):
    return "%s op=%s kind=%s text=%r expected=%r got=%r" % (
        v["kind"], v.get("op"), v.get("op_kind"), v.get("text"), v.get("expected"),
        v.get("got"))


# --------------------------------------------------------------------------- tiers
KNOWN_MATCHERS = {}


def tier_config(tier):
    if tier == "thorough":
        return {"runs": 150000, "chunk": 100, "determinism_plans": 60, "max_violations": 6,
                "min_budget": 400, "wall_limit_s": 6 * 3600, "sweep_hashseeds": 32,
                "sweep_orders": 8, "opts": {"shorthand": True}}
    return {"runs": 4000, "chunk": 25, "determinism_plans": 20, "max_violations": 4,
            "min_budget": 300, "wall_limit_s": 1500, "sweep_hashseeds": 4,
            "sweep_orders": 3, "opts": {"shorthand": True}}


def required_probes(tier, cfg):
    """Reach probes that depend only on the workload and the scheduler: stuck at zero means
    the machinery no longer does what it claims (exit 2)."""
    need = ["preempt_inside_parse", "two_clients_inside_parse", "gc_pass",
            "lingering_exception", "preemption", "blocked_on_busy_instance"]
    if cfg.get("opts", {}).get("shorthand"):
        need.append("preempt_inside_shorthand_parse")
    return need


def expected_probes(tier, cfg):
    """Reach probes that also depend on how the library reacts (it raises on bad input,
    an aborted parse leaves its token stream suspended, SLY keeps stacks, ...).  A change
    that keeps the property can legitimately make one of them unreachable - e.g. a parser
    that closes its token stream when it fails - so zero is reported, not failed."""
    need = [
        "gc_victim_in_action_same_thread", "prompt_close_victim_in_action",
        "parser_reentered_with_leftover_stacks", "lexer_reused_after_abort",
        "lexer_reused_after_partial", "instance_handover_after_abort",
        "rewriter_aborted_then_instances_reused", "preempt_inside_token_action",
        "preempt_inside_restart", "preempt_inside_reduction",
        "consumer_abort", "action_abort", "producer_abort", "abandoned_partial_stream",
        "gc_pass_finalised_stream", "prompt_finalisation",
    ]
    if tier == "thorough":
        need.append("gc_victim_in_action_other_thread")
    return need


# --------------------------------------------------------------------------- process sweep
def spelling_variants():
    """Every known function called with a legal arity in canonical, upper-case,
    capitalised and swapped-case spelling, plus the keyword operators in other cases: the
    inputs on which anything derived from set/dict iteration order (hash seed) or from a
    table that an optional sub-package extends (import order) has to show."""
    out = []
    for name in corpus.FUNC_NAMES:
        n = corpus.FUNCS[name][0]
        args = ", ".join(["name", "'x'", "1"][:n])
        for sp in (name, name.upper(), name.title(), name.swapcase(), name.capitalize()):
            out.append("%s(%s) eq 1" % (sp, args))
        out.append("%s(%s) eq 1" % (name, ", ".join(["name", "'x'", "1", "2"][:n + 1])))
        if n:
            out.append("%s(%s) eq 1" % (name, ", ".join(["name", "'x'", "1"][:n - 1])))
    for extra in ("ltrim", "rtrim", "lower", "upper", "substr", "strpos", "ceil", "len",
                  "char_length", "cast", "isof", "geo.area", "st_distance", "abs", "sqrt"):
        for n in (0, 1, 2):
            out.append("%s(%s) eq 1" % (extra, ", ".join(["name", "1"][:n])))
    for kw in ("AND", "Or", "NOT ", "Eq", "IN", "Add", "ANY", "All", "NULL", "True"):
        out.append("a %s b" % kw.strip() if kw.strip() not in ("NOT", "ANY", "All", "NULL", "True")
                   else "%s a" % kw.strip())
    return out


def sweep_texts(seed):
    pool = text_pool(seed, n=160)
    texts = sorted(set(pool["valid"]) | set(pool["bad"]) | set(spelling_variants()))
    rng = random.Random(seed + 99)
    aliases = [gen_aliases(rng) for _ in range(12)]
    rew = [(tuple(tuple(a) for a in al), gen_probe_for_aliases(rng, al)) for al in aliases]
    return texts, rew


def sweep_child(job):
    """Runs in a fresh interpreter: import in the given order, then evaluate."""
    from . import procsweep
    for name in job["imports"]:
        procsweep.do_import(name)
    init()
    texts, rew = sweep_texts(job["seed"])
    fresh = [reference(("parse", t)) for t in texts]
    toks = [reference(("tokens", t)) for t in texts[::3]]
    g = CORE["grammar"]
    lexer, parser = g.ODataLexer(), g.ODataParser()
    order = list(range(len(texts)))
    random.Random(job["seed"] + job.get("shuffle", 0)).shuffle(order)
    shared = [None] * len(texts)
    for i in order:
        try:
            shared[i] = canon_ast(parser.parse(lexer.tokenize(texts[i])))
        except Exception as e:
            shared[i] = canon_exc(e)
    rws = [reference(("rewriter", al, pr)) for al, pr in rew]
    rws_shared = []
    for al, pr in rew:
        try:
            rw = CORE["rewrite"].AliasRewriter(dict(al), lexer=lexer, parser=parser)
            rws_shared.append(canon_rewriter(rw, rw.visit(parser.parse(lexer.tokenize(pr)))))
        except Exception as e:
            rws_shared.append(canon_exc(e))
    return {"fresh": fresh, "tokens": toks, "shared": shared, "rewriter": rws,
            "rewriter_shared": rws_shared}


def _sweep_jobs(seed, n_hash, n_orders):
    rng = random.Random(seed * 31 + 5)
    names = ["grammar", "rewrite", "roundtrip", "typing", "visitor", "utils", "sql",
             "sqlalchemy", "django"]
    orders = [["grammar", "rewrite"], ["django", "sqlalchemy", "sql", "rewrite", "grammar"],
              ["sqlalchemy", "grammar", "django"]]
    while len(orders) < n_orders:
        k = rng.randint(1, len(names))
        orders.append(rng.sample(names, k))
    orders = orders[:n_orders]
    hashseeds = [0, 1, 2, 3] + [rng.randrange(4, 2 ** 31) for _ in range(max(0, n_hash - 4))]
    hashseeds = hashseeds[:n_hash]
    jobs = []
    for hi, h in enumerate(hashseeds):
        for oi, o in enumerate(orders):
            jobs.append({"name": "h%d-o%d" % (h, oi), "hashseed": h, "imports": o,
                         "seed": seed, "shuffle": hi * 100 + oi})
    return jobs


def _json_norm(x):
    return json_roundtrip(x)


def json_roundtrip(x):
    import json
    return json.loads(json.dumps(x, default=repr))


def process_sweep(seed, tier, workers):
    from . import procsweep
    cfg = tier_config(tier)
    jobs = _sweep_jobs(seed, cfg["sweep_hashseeds"], cfg["sweep_orders"])
    results = procsweep.run_children("C20", jobs, workers)
    texts, rew = sweep_texts(seed)
    harness, viol = [], []
    base_job, base, err = results[0]
    if base is None:
        return {"report": {}, "violations": [], "harness_errors": ["sweep control child failed: %s" % err]}
    # the control itself must be self-consistent: shared-instance history == fresh instances
    compared = 0
    for job, res, err in results:
        if res is None:
            harness.append("sweep child %s failed: %s" % (job["name"], err))
            continue
        for part, ref_part, labels in (
                ("fresh", "fresh", texts), ("shared", "fresh", texts),
                ("tokens", "tokens", texts[::3]), ("rewriter", "rewriter", rew),
                ("rewriter_shared", "rewriter", rew)):
            for i, (a, b) in enumerate(zip(res[part], base[ref_part])):
                compared += 1
                if a != b:
                    viol.append({
                        "kind": "process-digest-mismatch", "op_kind": part,
                        "name": job["name"] + "-" + part + "-%d" % i, "job": job,
                        "control": base_job, "part": part, "index": i,
                        "text": json_roundtrip(labels[i]), "expected": b, "got": a})
                    break
    seen = set()
    uniq = []
    for v in viol:
        key = (v["part"], v["index"])
        if key not in seen:
            seen.add(key)
            uniq.append(v)
    return {
        "report": {"children": len(jobs), "completed": sum(1 for _, r, _ in results if r),
                   "hash_seeds": sorted({j["hashseed"] for j in jobs}),
                   "import_orders": [j["imports"] for j in jobs[:cfg["sweep_orders"]]],
                   "texts": len(texts), "rewriter_constructions": len(rew),
                   "outcomes_compared": compared, "mismatches": len(viol)},
        "violations": uniq[:3], "harness_errors": harness}


def replay_sweep(rec):
    from . import procsweep
    results = procsweep.run_children("C20", [rec["control"], rec["job"]], 2)
    (j0, r0, e0), (j1, r1, e1) = results
    if r0 is None or r1 is None:
        raise RuntimeError("sweep replay child failed: %s %s" % (e0, e1))
    ref_part = {"shared": "fresh", "rewriter_shared": "rewriter"}.get(rec["part"], rec["part"])
    a, b = r1[rec["part"]][rec["index"]], r0[ref_part][rec["index"]]
    return a != b, a, b


# --------------------------------------------------------------------------- evidence text
TIME_UNIT = ("traced events (call/line/return/exception, plus opcode in ~12% of runs) "
             "inside odata_query/ and sly/; the system has no clock, so scheduler steps "
             "are the only time there is")
EVIDENCE_RULE = (
    "A case is one simulated run: a seeded plan of 1-4 caller threads x 1-5 ops (parse / "
    "decoupled tokenize-then-parse / two streams requested up front then parsed in turn / partial or full tokenize / AliasRewriter with caller "
    "instances / shorthand calls; 22% of texts repeat or nearly repeat an earlier one) "
    "routed over a pool of 1-3 shared ODataLexer and 1-3 shared ODataParser instances, "
    "with planned pre-emptions and planned garbage-collector passes at numbered traced "
    "events, executed with the real library under the baton-passing scheduler. Every op "
    "outcome is compared with the outcome of a fresh lexer+parser in a pristine forked "
    "process. A run is non-trivial if an instance was reused after an earlier op (leftover "
    "stacks, abort, abandoned stream), or a pre-emption fired, or a token stream was "
    "finalised (by an injected collector pass or by reference counting) during the run. "
    "distinct_nontrivial counts distinct schedule signatures among non-trivial runs: the "
    "signature is the sequence of fired (pre-emption | collector pass | prompt close | "
    "blocked) events with client and code location, plus op kinds and instance routing.")
COMPONENTS = {
    "real": ["odata_query.grammar (ODataLexer, ODataParser)", "odata_query.rewrite.AliasRewriter",
             "odata_query.ast", "sly.lex / sly.yacc drivers", "CPython reference counting and "
             "gc.collect() (invoked at planned ticks)", "caller threads (real threading.Thread, "
             "one runnable at a time)", "SQLAlchemy / Django statement builders in shorthand ops"],
    "stubbed_or_controlled": ["thread scheduling (baton passing at traced events)",
                              "automatic cyclic GC (disabled; passes injected)",
                              "no database is used for C20"],
}
ASSUMPTIONS = [
    "Pre-emption and collector passes happen only at traced Python events inside "
    "odata_query/ and sly/ frames; C code (re engine, list/dict operations) is atomic, as "
    "under the GIL.",
    "One caller-created instance is used by one thread at a time (handed over only "
    "between ops); concurrent use of a single caller-created instance is not promised by "
    "the property and is not generated.",
    "Instances the library creates internally (shorthands, AliasRewriter defaults) must "
    "behave like fresh ones for concurrent callers; a mismatch there is reported as "
    "internal-sharing (judgement call, DESIGN.md 5.2).",
    "The oracle is the library itself on fresh instances in a pristine forked process; "
    "what a text parses to is not judged.",
    "CPython 3.12.1 with the GIL; free-threaded builds and other versions are not covered.",
    "Sampling, not enumeration: a clean batch is evidence, not proof.",
]
NOT_COVERED = ["free-threaded CPython", "pre-emption inside C code",
               "two threads inside the same caller-created instance",
               "asynchronous interrupts (KeyboardInterrupt) inside a parse"]


# --------------------------------------------------------------------------- enumerated families
SYSTEMATIC_DOC = (
    "Besides the seeded random plans, these families are enumerated completely for a few "
    "text pairs: (A) abort on a shared lexer, then a second op on that lexer with a "
    "collector pass at EVERY traced event of the second op; (B) the same with the stale "
    "stream referenced by a pooled parser and a pre-emption at EVERY traced event of the "
    "second op, after which another client re-uses that parser (prompt close in another "
    "thread); (C) two clients calling a shorthand, client 0 pre-empted at EVERY traced "
    "event of its call while client 1 runs a complete call (C2: of the repetition of a call "
    "it already completed once); (D) client 0 pre-empted at every "
    "tick of the 40-tick window in which the stale stream of its own earlier abort is "
    "finalised by parser re-use x client 1 pre-empted at every token-action tick of its own "
    "tokenisation, after which client 0 finishes the finalisation; (E) the same two-"
    "dimensional enumeration for AliasRewriter constructions with library-created default "
    "instances: client 0 pre-empted at each of the first 80 ticks of its second "
    "construction x client 1 pre-empted at every token-action tick of its own.")

SYS_PAIRS = [
    # (earlier input that aborts, later input)
    ("name eq 'abc' and rating gt", "name eq 'abc' and rating gt 3 or not (id in (1, 2, 3))"),
    ("posts/any(p: p/rating ge 3", "contains(tolower(name), 'a') and startswith(title, 'T')"),
    ("foo(name) eq 1", "created_at gt 2019-01-01T14:00:00Z and d eq 2019-01-01 and t lt 14:00:00"),
    ("name eq 'abc' rating 3", "dur eq duration'P1DT2H' and g eq 01234567-89ab-cdef-0123-456789abcdef"),
    ("x in (1, 2", "x in ('a', 'b') or y in (1,)"),
    ("tolower(a, b) eq 'x'", "-a add 3 div 2 mod 5 le +7"),
    ("(name eq 'abc'", "posts/all(p: p/rating mul 2 sub 1 lt 10.5)"),
    ("a eq 1 b eq 2", "geo.distance(loc, geography'POINT(1 2)') lt 10.0"),
    ("name eq", "my.func(a=1, b='x') eq true"),
    ("my.func(a=1, b=2, c=3)", "author/name eq 'ann' and post/author/name ne null"),
    ("name eq eq 'abc'", "ns.field eq null and not b"),
    ("substring(a) eq 'x'", "year(created_at) eq 2019 and now() gt created_at"),
]


# quick tier: short later inputs (about 500-900 traced events each), every position tried
SYS_PAIRS_QUICK = [
    ("name eq 'abc' and", "id eq 1 and b ne 'x'"),
    ("foo(name) eq 1", "not (n in (1, 2))"),
    ("x in (1, 2", "tolower(a) eq 'b'"),
    ("a eq 1 b eq 2", "p/q gt 2019-01-01"),
    ("posts/any(p: p/r ge", "x/any(p: p/r ge 3)"),
    ("tolower(a, b) eq 'x'", "a add 1.5 le -2"),
]


def systematic_jobs(seed, tier):
    """One job per (family, pair, slice); a job enumerates its positions in the worker."""
    if tier == "thorough":
        pairs = list(range(len(SYS_PAIRS)))
        nsl = 4
        fams = ["A", "B", "C", "C2", "Apartial"]
        jobs = [{"family": f, "pair": p, "slice": s, "nslices": nsl}
                for f in fams for p in pairs for s in range(nsl)]
        # opcode granularity has about five times as many positions: three pairs
        jobs += [{"family": "Aop", "pair": (seed + d) % len(SYS_PAIRS), "slice": s, "nslices": 16}
                 for d in range(3) for s in range(16)]
        jobs += [{"family": "D", "pair": (seed + d) % len(SYS_PAIRS), "slice": s, "nslices": 16}
                 for d in range(4) for s in range(16)]
        jobs += [{"family": "E", "pair": d, "slice": s, "nslices": 16}
                 for d in range(3) for s in range(16)]
        return jobs
    nsl = 6
    pair = seed % len(SYS_PAIRS_QUICK)
    jobs = [{"family": f, "pair": pair, "slice": s, "nslices": nsl, "quick": True}
            for f in ("A", "B", "C", "C2") for s in range(nsl)]
    # D is two-dimensional: quick takes every fifth combination (offset by the seed)
    jobs += [{"family": "D", "pair": pair, "slice": (seed + 5 * s) % 30, "nslices": 30,
              "quick": True} for s in range(nsl)]
    jobs += [{"family": "E", "pair": seed % 3, "slice": (seed + 5 * s) % 30, "nslices": 30,
              "quick": True} for s in range(nsl)]
    return jobs


def systematic_plans(seed, spec):
    fam, pi = spec["family"], spec["pair"]
    bad, good = (SYS_PAIRS_QUICK if spec.get("quick") else SYS_PAIRS)[pi]
    dry = _W["dry"]
    opcode = fam == "Aop"
    gran = "opcode" if opcode else "line"
    if fam in ("A", "Aop", "Apartial"):
        if fam == "Apartial":
            o0 = {"id": "c0o0", "kind": "tokenize_partial", "text": good, "k": 3, "lexer": 0,
                  "parser": -1, "linger": True}
        else:
            o0 = {"id": "c0o0", "kind": "parse", "text": bad, "lexer": 0, "parser": -1,
                  "linger": True}
        o1 = {"id": "c0o1", "kind": "parse", "text": good, "lexer": 0, "parser": -1,
              "linger": False}
        n, _ = dry.get(o1, opcode)
        for k in range(1 + spec["slice"], n + 1, spec["nslices"]):
            yield ("sys%s-p%d-k%d" % (fam, pi, k), {
                "property": "C20", "seed": seed, "run": "sys%s-p%d-k%d" % (fam, pi, k),
                "granularity": gran, "n_lexers": 1, "n_parsers": 1, "start": 0,
                "clients": [{"ops": [dict(o0), dict(o1)]}],
                "points": [{"op": "c0o1", "at": k, "kind": "gc", "ord": 0}]})
    elif fam == "B":
        o0 = {"id": "c0o0", "kind": "parse", "text": bad, "lexer": 0, "parser": 0, "linger": False}
        o1 = {"id": "c0o1", "kind": "parse", "text": good, "lexer": 0, "parser": 1, "linger": False}
        b0 = {"id": "c1o0", "kind": "parse", "text": "a eq 1", "lexer": 1, "parser": 0, "linger": False}
        n, _ = dry.get(o1, False)
        for k in range(1 + spec["slice"], n + 1, spec["nslices"]):
            yield ("sysB-p%d-k%d" % (pi, k), {
                "property": "C20", "seed": seed, "run": "sysB-p%d-k%d" % (pi, k),
                "granularity": "line", "n_lexers": 2, "n_parsers": 2, "start": 0,
                "clients": [{"ops": [dict(o0), dict(o1)]}, {"ops": [dict(b0)]}],
                "points": [{"op": "c0o1", "at": k, "kind": "preempt", "to": 1, "ord": 0}]})
    elif fam == "D":
        # client 0 pre-empted at every tick of the window in which the stale stream of
        # its earlier abort is finalised (parser re-use), client 1 pre-empted inside every
        # token-action tick of its own tokenisation, then client 0 resumes
        o0 = {"id": "c0o0", "kind": "parse", "text": bad, "lexer": 0, "parser": 0, "linger": False}
        o1 = {"id": "c0o1", "kind": "parse", "text": "a eq 1", "lexer": 0, "parser": 0, "linger": False}
        b0 = {"id": "c1o0", "kind": "parse", "text": good, "lexer": 1, "parser": 1, "linger": False}
        _, i1 = dry.get(o1, False)
        _, ib = dry.get(b0, False)
        t0 = min(i1["tokens_assign"] or [1])
        window = list(range(t0, t0 + 40))
        acts = ib["action"]
        combos = [(k, a) for k in window for a in acts]
        for idx in range(spec["slice"], len(combos), spec["nslices"]):
            k, a = combos[idx]
            label = "sysD-p%d-k%d-a%d" % (pi, k, a)
            yield (label, {
                "property": "C20", "seed": seed, "run": label,
                "granularity": "line", "n_lexers": 2, "n_parsers": 2, "start": 0,
                "clients": [{"ops": [dict(o0), dict(o1)]}, {"ops": [dict(b0)]}],
                "points": [{"op": "c0o1", "at": k, "kind": "preempt", "to": 1, "ord": 0},
                           {"op": "c1o0", "at": a, "kind": "preempt", "to": 0, "ord": 1}]})
    elif fam == "E":
        # library-created (default) instances: after one completed AliasRewriter(aliases),
        # client 0 builds another one and is pre-empted at every tick of the first 80 of
        # that construction; client 1 builds its own and is pre-empted at every token-action
        # tick; client 0 finishes; client 1 continues
        al = [[["n", "name"], ["who", "author/name"]], [["x", "xyz/abc"], ["ttl", "title"]],
              [["a", "a/b/c"], ["r", "rating"]]]
        A, A2, B = al[pi % 3], al[(pi + 1) % 3], al[(pi + 2) % 3]
        o0 = {"id": "c0o0", "kind": "rewriter_default", "aliases": A, "text": "n eq 'x'", "linger": False}
        o1 = {"id": "c0o1", "kind": "rewriter_default", "aliases": A2, "text": "x eq 1", "linger": False}
        b0 = {"id": "c1o0", "kind": "rewriter_default", "aliases": B, "text": "a eq 2", "linger": False}
        _, ib = dry.get(b0, False)
        acts = ib["action"]
        combos = [(k, a) for k in range(1, 81) for a in acts]
        for idx in range(spec["slice"], len(combos), spec["nslices"]):
            k, a = combos[idx]
            label = "sysE-p%d-k%d-a%d" % (pi, k, a)
            yield (label, {
                "property": "C20", "seed": seed, "run": label,
                "granularity": "line", "n_lexers": 1, "n_parsers": 1, "start": 0,
                "clients": [{"ops": [dict(o0), dict(o1)]}, {"ops": [dict(b0)]}],
                "points": [{"op": "c0o1", "at": k, "kind": "preempt", "to": 1, "ord": 0},
                           {"op": "c1o0", "at": a, "kind": "preempt", "to": 0, "ord": 1}]})
    elif fam in ("C", "C2"):
        # C: client 0's first shorthand call pre-empted at every tick while client 1 makes
        # a complete call.  C2: client 0 first completes the same call once (so whatever
        # the library remembers about "the last filter" is in place), then repeats it and
        # is pre-empted at every tick of the repetition.
        kinds = ["sa_core", "sa_orm", "django"]
        ka = kinds[pi % 3]
        kb = ka if fam == "C2" else kinds[(pi // 3) % 3]
        a0 = {"id": "c0o0", "kind": ka, "text": good, "linger": False}
        a1 = {"id": "c0o1", "kind": ka, "text": good, "linger": False}
        # in C2 the other client's call must succeed (and so leave its own filter behind)
        b0 = {"id": "c1o0", "kind": kb,
              "text": bad if (pi % 2 and fam == "C") else "title eq 'x' and rating gt 1",
              "linger": False}
        n, _ = dry.get(a0, False)
        ops0 = [dict(a0)] if fam == "C" else [dict(a0), dict(a1)]
        target = "c0o0" if fam == "C" else "c0o1"
        for k in range(1 + spec["slice"], n + 1, spec["nslices"]):
            label = "sys%s-p%d-k%d" % (fam, pi, k)
            yield (label, {
                "property": "C20", "seed": seed, "run": label,
                "granularity": "line", "n_lexers": 1, "n_parsers": 1, "start": 0,
                "clients": [{"ops": ops0}, {"ops": [dict(b0)]}],
                "points": [{"op": target, "at": k, "kind": "preempt", "to": 1, "ord": 0}]})
