"""Process-level histories: fresh interpreters under chosen PYTHONHASHSEED values that
import the library's modules in a chosen order and then run a fixed script.  Each child
is one deterministic execution: (hash seed, import order, script) decides everything.

Child protocol: ``python check <prop> --sweep-child`` reads one JSON job on stdin and
prints one line ``JSON {...}``.
"""
import json
import os
import subprocess
import sys
from concurrent.futures import ThreadPoolExecutor

from . import env

CHECK = os.path.join(env.VERIF_DIR, "check")

IMPORTABLE = {
    "grammar": "odata_query.grammar",
    "rewrite": "odata_query.rewrite",
    "roundtrip": "odata_query.roundtrip",
    "typing": "odata_query.typing",
    "visitor": "odata_query.visitor",
    "utils": "odata_query.utils",
    "sql": "odata_query.sql",
    "sqlalchemy": "odata_query.sqlalchemy",
    "django": "odata_query.django",
}


def do_import(name):
    import importlib
    if name == "django":
        import django
        from django.conf import settings
        if not settings.configured:
            settings.configure(
                INSTALLED_APPS=["django.contrib.contenttypes"],
                DATABASES={"default": {"ENGINE": "django.db.backends.sqlite3",
                                       "NAME": ":memory:"}},
                USE_TZ=True, DEFAULT_AUTO_FIELD="django.db.models.AutoField")
            django.setup()
    return importlib.import_module(IMPORTABLE[name])


def run_children(prop, jobs, workers, timeout=300):
    """jobs: list of dict(name, hashseed, ...).  Returns list of (job, result|None, err)."""
    def one(job):
        e = dict(os.environ)
        e["PYTHONHASHSEED"] = str(job["hashseed"])
        e["VERIF_REPO"] = env.REPO
        e["VERIF_PYTHON"] = sys.executable
        e.pop("PYTHONPATH", None)
        try:
            p = subprocess.run([CHECK, prop, "--sweep-child"],
                               input=json.dumps(job), env=e, capture_output=True,
                               text=True, timeout=timeout)
        except subprocess.TimeoutExpired:
            return job, None, "timeout"
        lines = [l for l in p.stdout.splitlines() if l.startswith("JSON ")]
        if p.returncode != 0 or not lines:
            return job, None, "rc=%s stderr=%s" % (p.returncode, p.stderr[-1500:])
        return job, json.loads(lines[-1][5:]), None

    with ThreadPoolExecutor(max_workers=max(1, workers)) as ex:
        return list(ex.map(one, jobs))
