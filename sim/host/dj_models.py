"""Django side of the host: the same three models, configured in-process."""
import django
from django.conf import settings

if not settings.configured:
    settings.configure(
        INSTALLED_APPS=["django.contrib.contenttypes"],
        DATABASES={"default": {"ENGINE": "django.db.backends.sqlite3", "NAME": ":memory:"}},
        USE_TZ=True,
        DEFAULT_AUTO_FIELD="django.db.models.AutoField",
    )
    django.setup()

from django.db import models  # noqa: E402


class Author(models.Model):
    name = models.CharField(max_length=64)

    class Meta:
        app_label = "simhost"
        db_table = "author"


class Post(models.Model):
    title = models.CharField(max_length=64)
    rating = models.IntegerField()
    author = models.ForeignKey(Author, null=True, on_delete=models.CASCADE,
                               related_name="posts")

    class Meta:
        app_label = "simhost"
        db_table = "post"


class Comment(models.Model):
    body = models.CharField(max_length=64)
    post = models.ForeignKey(Post, on_delete=models.CASCADE, related_name="comments")
    writer = models.ForeignKey(Author, null=True, on_delete=models.CASCADE,
                               related_name="written")

    class Meta:
        app_label = "simhost"
        db_table = "comment"


MODELS = {"Author": Author, "Post": Post, "Comment": Comment}
