"""Django side of the host: the same three models, configured in-process."""
import django
from django.conf import settings

if not settings.configured:
    settings.configure(
        INSTALLED_APPS=["sim.host.djapp.apps.SimHostConfig"],
        DATABASES={"default": {"ENGINE": "django.db.backends.sqlite3", "NAME": ":memory:"}},
        USE_TZ=True,
        DEFAULT_AUTO_FIELD="django.db.models.AutoField",
    )
    django.setup()

from .djapp.models import Author, Comment, Kind, Label, Post  # noqa: E402

MODELS = {"Author": Author, "Post": Post, "Comment": Comment, "Label": Label, "Kind": Kind}
