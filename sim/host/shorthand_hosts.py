"""Fixed unfiltered base queries for the C20 shorthand ops (no database needed: the
shorthands only build statements)."""


class Hosts:
    def __init__(self):
        from sqlalchemy import select

        from . import dj_models, sa_models
        from odata_query.django import apply_odata_query as dj_apply
        from odata_query.sqlalchemy import apply_odata_core, apply_odata_query as sa_apply

        self._select = select
        self._sa = sa_models
        self._dj = dj_models
        self._dj_apply = dj_apply
        self._sa_apply = sa_apply
        self._sa_core = apply_odata_core

    def call(self, kind, text):
        """Call the shorthand like an application would.  What it returns is not judged
        here (C20 compares what the shorthand's internal parse produced, which the
        scheduler observes); errors of the visitor stage are swallowed."""
        if kind not in ("sa_core", "sa_orm", "django"):
            raise KeyError(kind)
        try:
            if kind == "sa_core":
                self._sa_core(self._select(self._sa.TABLES["Post"]), text)
            elif kind == "sa_orm":
                self._sa_apply(self._select(self._sa.Post), text)
            else:
                self._dj_apply(self._dj.Post.objects.all(), text)
        except Exception:
            pass
        return None, None


def build():
    return Hosts()
