"""Fixed unfiltered base queries for the C20 shorthand ops (no database needed: the
shorthands only build statements)."""


class Hosts:
    def __init__(self):
        from sqlalchemy import select

        from . import dj_models, sa_models
        from odata_query.django import apply_odata_query as dj_apply
        from odata_query.sqlalchemy import apply_odata_core, apply_odata_query as sa_apply

        self._select = select
        self._sa = sa_models
        self._dj = dj_models
        self._dj_apply = dj_apply
        self._sa_apply = sa_apply
        self._sa_core = apply_odata_core
        from .. import c20
        self._canon_exc = c20.canon_exc

    def call(self, kind, text):
        """Call the shorthand like an application would.  What it returns is not judged
        (C20 compares the AST the shorthand handed to its visitor, which the scheduler
        observes); an exception is handed back for the case that the shorthand never
        reached its visitor."""
        if kind not in ("sa_core", "sa_orm", "django"):
            raise KeyError(kind)
        try:
            if kind == "sa_core":
                self._sa_core(self._select(self._sa.TABLES["Post"]), text)
            elif kind == "sa_orm":
                self._sa_apply(self._select(self._sa.Post), text)
            else:
                self._dj_apply(self._dj.Post.objects.all(), text)
        except Exception as e:
            return self._canon_exc(e), None
        return ("ok", "shorthand returned"), None


def build():
    return Hosts()
