from django.db import models


class Label(models.Model):
    name = models.CharField(max_length=64)

    class Meta:
        app_label = "simhost"
        db_table = "label"


class Kind(models.Model):
    name = models.CharField(max_length=64)

    class Meta:
        app_label = "simhost"
        db_table = "kind"


class Author(models.Model):
    name = models.CharField(max_length=64)

    class Meta:
        app_label = "simhost"
        db_table = "author"


class HighRatedManager(models.Manager):
    """A second, non-default manager that carries its own condition."""

    def get_queryset(self):
        return super().get_queryset().filter(rating__gte=3)


class Post(models.Model):
    title = models.CharField(max_length=64)
    rating = models.IntegerField()
    author = models.ForeignKey(Author, null=True, on_delete=models.CASCADE,
                               related_name="posts")

    tag = models.ForeignKey(Label, null=True, on_delete=models.CASCADE, related_name="tagged_posts")
    # a many-to-many relation (Django side only): collections reached through it have a
    # multi-valued link condition
    editors = models.ManyToManyField(Author, related_name="edited", db_table="post_editors")

    objects = models.Manager()
    high = HighRatedManager()

    class Meta:
        app_label = "simhost"
        db_table = "post"


class Comment(models.Model):
    body = models.CharField(max_length=64)
    post = models.ForeignKey(Post, on_delete=models.CASCADE, related_name="comments")
    tag = models.ForeignKey(Kind, null=True, on_delete=models.CASCADE,
                            related_name="tagged_comments")
    writer = models.ForeignKey(Author, null=True, on_delete=models.CASCADE,
                               related_name="comments")
    co_writer = models.ForeignKey(Author, null=True, on_delete=models.CASCADE,
                                 related_name="co_written")

    class Meta:
        app_label = "simhost"
        db_table = "comment"
