from django.apps import AppConfig


class SimHostConfig(AppConfig):
    name = "sim.host.djapp"
    label = "simhost"
    default_auto_field = "django.db.models.AutoField"
