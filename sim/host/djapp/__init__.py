"""Django app of the simulated host (Author / Post / Comment)."""
