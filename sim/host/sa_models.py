"""SQLAlchemy side of the host: declarative models and their Tables.

Author(id, name) 1-* Post(id, title, rating, author_id NULL) 1-* Comment(id, body,
post_id, writer_id NULL, co_writer_id NULL).  ``Comment.writer -> Author`` is, on purpose, a relationship
whose key differs from the related table's name.
"""
from sqlalchemy import Column, ForeignKey, Integer, String
from sqlalchemy.orm import declarative_base, relationship

Base = declarative_base()


class Label(Base):
    __tablename__ = "label"
    id = Column(Integer, primary_key=True)
    name = Column(String, nullable=False)


class Kind(Base):
    __tablename__ = "kind"
    id = Column(Integer, primary_key=True)
    name = Column(String, nullable=False)


class Author(Base):
    __tablename__ = "author"
    id = Column(Integer, primary_key=True)
    name = Column(String, nullable=False)
    posts = relationship("Post", back_populates="author")
    # same accessor name as Post.comments, on purpose (lambda owner `comments/any(...)` is
    # valid on two root models)
    comments = relationship("Comment", back_populates="writer",
                           foreign_keys="Comment.writer_id")
    co_written = relationship("Comment", back_populates="co_writer",
                            foreign_keys="Comment.co_writer_id")


class Post(Base):
    __tablename__ = "post"
    id = Column(Integer, primary_key=True)
    title = Column(String, nullable=False)
    rating = Column(Integer, nullable=False)
    author_id = Column(Integer, ForeignKey("author.id"), nullable=True)
    author = relationship("Author", back_populates="posts")
    comments = relationship("Comment", back_populates="post")
    # Post.tag and Comment.tag: the same relationship key on two models, different tables
    tag_id = Column(Integer, ForeignKey("label.id"), nullable=True)
    tag = relationship("Label")


class Comment(Base):
    __tablename__ = "comment"
    id = Column(Integer, primary_key=True)
    body = Column(String, nullable=False)
    post_id = Column(Integer, ForeignKey("post.id"), nullable=False)
    writer_id = Column(Integer, ForeignKey("author.id"), nullable=True)
    co_writer_id = Column(Integer, ForeignKey("author.id"), nullable=True)
    tag_id = Column(Integer, ForeignKey("kind.id"), nullable=True)
    tag = relationship("Kind")
    post = relationship("Post", back_populates="comments")
    writer = relationship("Author", back_populates="comments", foreign_keys=[writer_id])
    # a second relationship to the same target: hosts join it through an alias
    co_writer = relationship("Author", back_populates="co_written", foreign_keys=[co_writer_id])


MODELS = {"Author": Author, "Post": Post, "Comment": Comment, "Label": Label, "Kind": Kind}
TABLES = {k: v.__table__ for k, v in MODELS.items()}
