"""The simulated host application: builds, chains, snapshots and executes live query
objects of the five styles on real SQLAlchemy / Django, and keeps the Python reference
database.  The library is called exactly as an application would call it."""
import re

from . import templates as T

STYLES = ["sa_select", "sa_select_aliased", "sa_legacy", "sa_legacy_aliased", "sa_core",
          "sa_core_cols",
          "sa_core_fromjoin", "dj_qs",
          "dj_manager",
          "dj_custom_manager", "dj_related_manager"]
# related managers the host may start from: root model -> (owner model, accessor, fk column)
RELATED = {"Post": ("Author", "posts", "author_id"),
           "Comment": ("Post", "comments", "post_id")}
CORE_STYLES = ("sa_core", "sa_core_cols", "sa_core_fromjoin")
LEGACY_STYLES = ("sa_legacy", "sa_legacy_aliased")
ALIASED_STYLES = ("sa_select_aliased", "sa_legacy_aliased")
HOST_OPS = {"eq": "__eq__", "ne": "__ne__", "lt": "__lt__", "le": "__le__", "gt": "__gt__",
            "ge": "__ge__"}
DJ_LOOKUP = {"eq": "exact", "lt": "lt", "le": "lte", "gt": "gt", "ge": "gte"}


class Libs:
    """Everything imported once per process."""

    def __init__(self):
        import sqlalchemy as sa
        from sqlalchemy import event, select
        from sqlalchemy.dialects import sqlite
        from sqlalchemy.orm import Session, aliased, joinedload
        from sqlalchemy.pool import StaticPool

        from . import dj_models, sa_models
        from django.db import connection
        from django.db.models import F
        from odata_query.django import apply_odata_query as dj_apply
        from odata_query.sqlalchemy import apply_odata_core, apply_odata_query as sa_apply

        self.sa = sa
        self.select = select
        self.event = event
        self.Session = Session
        self.aliased = aliased
        self.joinedload = joinedload
        self.StaticPool = StaticPool
        self.sqlite_dialect = sqlite.dialect()
        self.sm = sa_models
        self.dm = dj_models
        self.dj_connection = connection
        self.F = F
        self.dj_apply = dj_apply
        self.sa_apply = sa_apply
        self.sa_core_apply = apply_odata_core
        self._dj_tables = False
        self.warm()

    def warm(self):
        """First-use initialisation of SQLAlchemy and Django (mapper configuration,
        compiler caches, lazy imports) done once, with host objects only - nothing here
        touches odata_query - so that forked children start warm."""
        from sqlalchemy.orm import configure_mappers
        configure_mappers()
        for m in ("Author", "Post", "Comment"):
            str(self.select(self.sm.MODELS[m]).where(self.sm.MODELS[m].id > 0)
                .order_by(self.sm.MODELS[m].id).compile(dialect=self.sqlite_dialect))
            str(self.select(self.sm.TABLES[m]).compile(dialect=self.sqlite_dialect))
            self.dm.MODELS[m].objects.filter(id__gt=0).order_by("id").query.sql_with_params()
        str(self.select(self.sm.Comment).join(self.sm.Comment.writer)
            .compile(dialect=self.sqlite_dialect))
        self.dm.Comment.objects.select_related("post").filter(
            writer__name="x").query.sql_with_params()
        sess = self.Session()
        str(sess.query(self.sm.Post).filter(self.sm.Post.id > 0).statement
            .compile(dialect=self.sqlite_dialect))
        sess.close()

    # ---------------------------------------------------------------- databases
    def new_sa_engine(self, cache_size):
        eng = self.sa.create_engine("sqlite://", poolclass=self.StaticPool,
                                    query_cache_size=cache_size)
        self.sm.Base.metadata.create_all(eng)
        return eng

    def load_sa(self, eng, data):
        with eng.begin() as conn:
            for model in ("Label", "Kind", "Author", "Post", "Comment"):
                if data.get(model):
                    conn.execute(self.sm.TABLES[model].insert(), data[model])

    def load_dj(self, data):
        conn = self.dj_connection
        if not self._dj_tables:
            with conn.schema_editor() as ed:
                for m in ("Label", "Kind", "Author", "Post", "Comment"):
                    ed.create_model(self.dm.MODELS[m])
            self._dj_tables = True
        with conn.cursor() as cur:
            for tbl in ("post_editors", "comment", "post", "author", "label", "kind"):
                cur.execute("DELETE FROM %s" % tbl)
            for tbl, key in (("label", "Label"), ("kind", "Kind")):
                cur.executemany("INSERT INTO %s (id, name) VALUES (%%s, %%s)" % tbl,
                                [(r["id"], r["name"]) for r in data.get(key, [])])
            cur.executemany("INSERT INTO author (id, name) VALUES (%s, %s)",
                            [(r["id"], r["name"]) for r in data["Author"]])
            cur.executemany(
                "INSERT INTO post (id, title, rating, author_id, tag_id) VALUES (%s, %s, %s, %s, %s)",
                [(r["id"], r["title"], r["rating"], r["author_id"], r.get("tag_id"))
                 for r in data["Post"]])
            cur.executemany("INSERT INTO post_editors (post_id, author_id) VALUES (%s, %s)",
                            [tuple(x) for x in data.get("PostEditors", [])])
            cur.executemany(
                "INSERT INTO comment (id, body, post_id, writer_id, co_writer_id, tag_id) "
                "VALUES (%s, %s, %s, %s, %s, %s)",
                [(r["id"], r["body"], r["post_id"], r["writer_id"], r.get("co_writer_id"),
                  r.get("tag_id")) for r in data["Comment"]])


class HostQuery:
    """Model-side record of one live query object."""
    __slots__ = ("qid", "style", "root", "obj", "preds", "order", "joins", "annotated",
                 "chain", "snap0", "depth", "parent", "have", "limit", "distinct")

    def __init__(self, qid, style, root, obj, preds, order, joins, annotated, chain, depth,
                 parent):
        self.qid, self.style, self.root, self.obj = qid, style, root, obj
        self.preds, self.order, self.joins, self.annotated = preds, order, joins, annotated
        self.chain, self.depth, self.parent = chain, depth, parent
        self.snap0 = None
        self.have = set()    # (owner model, rel) the query already joins (host or shorthand)
        self.limit = None    # (n, offset) once the host sliced the query
        self.distinct = False


def is_dj(style):
    return style.startswith("dj")


class Builder:
    """Applies constructive ops to live objects.  ``session`` is needed for sa_legacy."""

    def __init__(self, libs, session=None):
        self.L = libs
        self.session = session

    def new(self, style, root, owner_id=None):
        L = self.L
        if style == "sa_select":
            return L.select(L.sm.MODELS[root])
        if style == "sa_select_aliased":
            return L.select(L.aliased(L.sm.MODELS[root]))
        if style in LEGACY_STYLES:
            sess = self.session if self.session is not None else L.Session()
            ent = L.sm.MODELS[root]
            return sess.query(L.aliased(ent) if style == "sa_legacy_aliased" else ent)
        if style == "sa_core":
            return L.select(L.sm.TABLES[root])
        if style == "sa_core_cols":
            # the host selects two columns only; filters may name any column of the table
            t = L.sm.TABLES[root]
            second = sorted(c for c in T.SCALARS[root] if c != "id")[-1]
            return L.select(t.c.id, t.c[second])
        if style == "sa_core_fromjoin":
            # columns of author (first) and post, FROM post JOIN author: the order of the
            # FROM list differs from the order of the columns.  Root is Author; one row
            # per post that has an author.
            a, p = L.sm.TABLES["Author"], L.sm.TABLES["Post"]
            return L.select(a.c.id, a.c.name, p.c.title).select_from(p).join(
                a, p.c.author_id == a.c.id)
        if style == "dj_qs":
            return L.dm.MODELS[root].objects.all()
        if style == "dj_manager":
            return L.dm.MODELS[root].objects
        if style == "dj_custom_manager":
            return L.dm.Post.high          # root is Post
        if style == "dj_related_manager":
            owner, accessor, _ = RELATED[root]
            return getattr(L.dm.MODELS[owner](id=owner_id), accessor)
        raise ValueError(style)

    def entity(self, style, root, obj, model=None):
        """The entity host expressions are written against: the mapped class, or - for an
        aliased root - the alias the query selects from."""
        if style in ALIASED_STYLES and (model is None or model == root):
            return obj.column_descriptions[0]["entity"]
        return self.L.sm.MODELS[model or root]

    def where(self, style, root, obj, cond):
        L = self.L
        if is_dj(style):
            if cond["op"] == "ne":
                return obj.exclude(**{cond["f"] + "__exact": cond["v"]})
            return obj.filter(**{cond["f"] + "__" + DJ_LOOKUP[cond["op"]]: cond["v"]})
        col = (L.sm.TABLES[root].c[cond["f"]] if style in CORE_STYLES
               else getattr(self.entity(style, root, obj), cond["f"]))
        expr = getattr(col, HOST_OPS[cond["op"]])(cond["v"])
        return obj.filter(expr) if style in LEGACY_STYLES else obj.where(expr)

    def join(self, style, root, obj, j):
        L = self.L
        if is_dj(style):
            return obj.select_related(j["path"])
        fk, tgt = T.TO_ONE[j["owner"]][j["rel"]]
        form = j["form"]
        if form == "core_join":
            ot, tt = L.sm.TABLES[j["owner"]], L.sm.TABLES[tgt]
            return obj.join(tt, ot.c[fk] == tt.c.id)
        owner = self.entity(style, root, obj, j["owner"])
        target = L.sm.MODELS[tgt]
        if form == "joinedload":
            return obj.options(L.joinedload(getattr(owner, j["rel"])))
        if form == "aliased_rel":
            # the host joins the related entity through an alias of its own
            return obj.join(getattr(owner, j["rel"]).of_type(L.aliased(target)))
        if form == "rel":
            return obj.join(getattr(owner, j["rel"]))
        if form == "outer_rel":
            return obj.outerjoin(getattr(owner, j["rel"]))
        if form == "target_on":
            return obj.join(target, getattr(owner, fk) == target.id)
        if form == "target":
            return obj.join(target)
        raise ValueError(form)

    def order(self, style, root, obj, o):
        L = self.L
        if is_dj(style):
            return obj.order_by(("-" if o["dir"] == "desc" else "") + o["f"], "id")
        if style in CORE_STYLES:
            c, pk = L.sm.TABLES[root].c[o["f"]], L.sm.TABLES[root].c.id
        else:
            ent = self.entity(style, root, obj)
            c, pk = getattr(ent, o["f"]), ent.id
        return obj.order_by(c.desc() if o["dir"] == "desc" else c.asc(), pk)

    def annotate(self, style, root, obj):
        return obj.annotate(rating_plus=self.L.F("rating") + 1)

    def apply(self, style, obj, text):
        L = self.L
        if is_dj(style):
            return L.dj_apply(obj, text)
        if style in CORE_STYLES:
            return L.sa_core_apply(obj, text)
        return L.sa_apply(obj, text)

    def step(self, style, root, obj, op):
        k = op["op"]
        if k == "where":
            return self.where(style, root, obj, op["cond"])
        if k == "join":
            return self.join(style, root, obj, op["j"])
        if k == "order":
            return self.order(style, root, obj, op["o"])
        if k == "annotate":
            return self.annotate(style, root, obj)
        if k == "where_many":
            # a host condition across a to-many relation: rows repeat per matching member
            c = op["cond"]
            return obj.filter(**{op["rel"] + "__" + c["f"] + "__" + DJ_LOOKUP[c["op"]]: c["v"]})
        if k == "limit":
            n, m = op["n"], op.get("offset", 0)
            if is_dj(style):
                return obj.all()[m:m + n]
            return obj.limit(n).offset(m)
        if k == "distinct":
            return obj.distinct()
        if k == "only":
            return obj.only("id") if op.get("mode") == "only" else obj.defer(op["field"])
        if k == "apply":
            return self.apply(style, obj, T.render(op["t"]))
        raise ValueError(k)

    def build_chain(self, chain):
        """chain = [new-op, op, op, ...] -> live object (used by the pristine oracle)."""
        first = chain[0]
        style, root = first["style"], first["root"]
        obj = self.new(style, root, first.get("owner_id"))
        for op in chain[1:]:
            obj = self.step(style, root, obj, op)
        return style, root, obj

    # ---------------------------------------------------------------- observation
    def snapshot(self, style, obj):
        """Compiled SQL text + parameters: a value that identifies what the query object
        currently means, without executing it."""
        L = self.L
        if is_dj(style):
            # always compile a clone (.all()): Django's compiler adds select_related
            # joins to the query object it compiles, so compiling the live object would
            # be an observer effect of the harness on the host's query
            if not hasattr(obj, "query"):      # a Manager
                sql, params = obj.all().query.sql_with_params()
                return ("manager", type(obj).__name__, sql, tuple(params))
            sql, params = obj.all().query.sql_with_params()
            return ("queryset", sql, tuple(params))
        stmt = obj.statement if style in LEGACY_STYLES else obj
        c = stmt.compile(dialect=L.sqlite_dialect)
        return ("sa", str(c), tuple(sorted((k, repr(v)) for k, v in c.params.items())))

    def sql_text(self, snap):
        return snap[2] if snap[0] == "manager" else snap[1]

    def run(self, style, obj, session, annotated=False):
        """Execute; returns (pks in result order, extra) - extra carries annotation
        values when the query is annotated."""
        L = self.L
        if is_dj(style):
            qs = obj.all()      # evaluate a clone, see snapshot()
            rows = list(qs)
            extra = [getattr(o, "rating_plus", None) for o in rows] if annotated else None
            return [o.pk for o in rows], extra
        if style in LEGACY_STYLES:
            return [o.id for o in obj.all()], None
        if style in CORE_STYLES:
            return [r[0] for r in session.execute(obj).all()], None
        return [o.id for o in session.execute(obj).scalars().unique().all()], None


def strip_subqueries(sql):
    """The statement without its parenthesised sub-SELECTs (EXISTS(...) etc.): joins
    inside a lambda's subquery are not joins of the host query."""
    out, i, n = [], 0, len(sql)
    up = sql.upper()
    while i < n:
        if sql[i] == "(" and up[i + 1:i + 8].lstrip().startswith("SELECT"):
            depth = 0
            while i < n:
                if sql[i] == "(":
                    depth += 1
                elif sql[i] == ")":
                    depth -= 1
                    if depth == 0:
                        i += 1
                        break
                i += 1
            out.append("(...)")
        else:
            out.append(sql[i])
            i += 1
    return "".join(out)


def count_joins(sql, table):
    """Number of JOIN clauses onto ``table`` in the outer query of a compiled statement."""
    sql = strip_subqueries(sql)
    return len(re.findall(r'JOIN\s+"?%s"?(?:\s+AS\s+"?\w+"?|\s+"?\w+"?)?\s+ON' % re.escape(table),
                          sql, flags=re.I))


# -------------------------------------------------------------------- reference model
def model_rows(q, db, filter_then_limit=False):
    """Rows (dicts) the host query denotes on the reference database, in order.
    Conditions added after the host sliced the query (LIMIT/OFFSET) select among the
    sliced rows; ``filter_then_limit`` gives SQL's reading instead (all conditions, then
    the slice) - used only to recognise the known finding."""
    if q.style == "sa_core_fromjoin":
        # one row per post that has an author; the row carries the author's columns
        rows = []
        for p in db["Post"]:
            for a in db["Author"]:
                if p["author_id"] == a["id"]:
                    rows.append(dict(a))
    else:
        rows = list(db[q.root])
    for j in q.joins:
        if j["form"] in ("outer_rel", "select_related", "joinedload"):
            continue
        rows = [r for r in rows if _join_keeps(q.root, r, j, db)]
    def keep(rows, preds):
        for p in preds:
            if p["kind"] == "many":
                tgt, back = T.TO_MANY[q.root][p["rel"]]
                c = p["cond"]
                rows = [r for r in rows for m in db[tgt]
                        if m[back] == r["id"] and T.OPS[c["op"]](m[c["f"]], c["v"])]
            elif p["kind"] == "host":
                c = p["cond"]
                rows = [r for r in rows if T.OPS[c["op"]](r[c["f"]], c["v"])]
            else:
                rows = [r for r in rows if T.evaluate(p["t"], r, db, q.root)]
        return rows

    late = [p for p in q.preds if p.get("after_limit")]
    rows = keep(rows, [p for p in q.preds if not p.get("after_limit")] +
                (late if filter_then_limit else []))
    if q.order:
        f, d = q.order["f"], q.order["dir"]
        rows.sort(key=lambda r: r["id"])
        rows.sort(key=lambda r: r[f], reverse=(d == "desc"))
    if q.distinct:
        seen, uniq = set(), []
        for r in rows:
            if r["id"] not in seen:
                seen.add(r["id"])
                uniq.append(r)
        rows = uniq
    if q.limit:
        n, m = q.limit
        rows = rows[m:m + n]
    if not filter_then_limit:
        rows = keep(rows, late)
    return rows


def _join_keeps(root, row, j, db):
    """Inner join along owner.rel keeps the row iff the foreign key chain is non-NULL."""
    m, r = root, row
    for rel in j["via"] + [j["rel"]]:
        fk, tgt = T.TO_ONE[m][rel]
        if r[fk] is None:
            return False
        nxt = [x for x in db[tgt] if x["id"] == r[fk]]
        if not nxt:
            return False
        m, r = tgt, nxt[0]
    return True
