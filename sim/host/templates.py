"""Filter templates: a small family of OData filters with hand-written Python meaning.

A template is plain JSON (so it lives in plans and replay files).  It renders to OData
text and evaluates on the Python reference database.  The family is chosen so that
OData semantics, SQL three-valued logic, inner and outer joins all agree (DESIGN.md 6.1):

* scalar comparisons only on NOT NULL columns;
* string functions only with lower-case ASCII data and patterns without % or _;
* to-one navigation (``author/name eq 'ann'``) only as a positive top-level conjunct;
* any/all lambdas with scalar bodies on the related model.

The templates are workload for the *composition* property C15, not an attempt to decide
what arbitrary filters mean.
"""

# schema of the host: scalar NOT NULL columns per model, to-one and to-many relationships
SCALARS = {
    "Author": {"id": "int", "name": "str"},
    "Post": {"id": "int", "title": "str", "rating": "int"},
    "Comment": {"id": "int", "body": "str", "post_id": "int"},
    "Label": {"id": "int", "name": "str"},
    "Kind": {"id": "int", "name": "str"},
}
TABLE = {"Author": "author", "Post": "post", "Comment": "comment", "Label": "label",
         "Kind": "kind"}
# rel key -> (fk column on the root row, target model)
TO_ONE = {
    # Post.tag -> Label and Comment.tag -> Kind: one relationship key, two models, two tables
    "Post": {"author": ("author_id", "Author"), "tag": ("tag_id", "Label")},
    "Comment": {"post": ("post_id", "Post"), "writer": ("writer_id", "Author"),
                "co_writer": ("co_writer_id", "Author"), "tag": ("tag_id", "Kind")},
    "Author": {}, "Label": {}, "Kind": {},
}
# rel key -> (target model, fk column on the target row pointing back)
TO_MANY = {
    "Author": {"posts": ("Post", "author_id"), "comments": ("Comment", "writer_id")},
    "Post": {"comments": ("Comment", "post_id")},
    "Comment": {}, "Label": {}, "Kind": {},
}
# many-to-many (Django side): accessor -> (target model, accessor back, column index of the
# root's id in a PostEditors pair [post_id, author_id])
M2M = {"Author": {"edited": ("Post", "editors", 1)}, "Post": {"editors": ("Author", "edited", 0)}}
NAMES = ["ann", "bob", "cy", "dee", "a b", "a  b"]
TITLES = ["alpha", "beta", "gamma", "delta"]
BODIES = ["nice", "cool", "meh", "wow"]
STR_VALUES = {"name": NAMES, "title": TITLES, "body": BODIES}
OPS = {"eq": lambda a, b: a == b, "ne": lambda a, b: a != b, "lt": lambda a, b: a < b,
       "le": lambda a, b: a <= b, "gt": lambda a, b: a > b, "ge": lambda a, b: a >= b}
LVAR = {"posts": "p", "comments": "c"}


# ---------------------------------------------------------------- generation
def gen_fn(rng, model):
    """A call of one of the functions the SQLAlchemy backend registers itself
    (functions_ext) - these are what the compiled-statement cache could get wrong."""
    fields = SCALARS[model]
    strs = sorted(f for f in fields if fields[f] == "str")
    ints = sorted(f for f in fields if fields[f] == "int")
    if strs and rng.random() < 0.7:
        f = rng.choice(strs)
        v = rng.choice(STR_VALUES[f])
        fn = rng.choice(["tolower", "toupper", "trim", "length", "substring"])
        if fn == "toupper":
            return {"k": "fn", "fn": fn, "f": f, "op": rng.choice(["eq", "ne"]), "v": v.upper()}
        if fn == "length":
            return {"k": "fn", "fn": fn, "f": f, "op": rng.choice(sorted(OPS)), "v": rng.randint(2, 5)}
        if fn == "substring":
            n = rng.randint(0, 2)
            t = {"k": "fn", "fn": fn, "f": f, "n": n, "op": rng.choice(["eq", "ne"]), "v": v[n:]}
            if rng.random() < 0.5:
                t["m"] = rng.randint(1, 3)
                t["v"] = v[n:n + t["m"]]
            return t
        return {"k": "fn", "fn": fn, "f": f, "op": rng.choice(["eq", "ne", "ge"]), "v": v}
    f = rng.choice(ints)
    return {"k": "fn", "fn": rng.choice(["floor", "ceiling", "round"]), "f": f,
            "op": rng.choice(sorted(OPS)), "v": rng.randint(0, 6)}


def gen_scalar(rng, model, depth=0, allow_fn=True):
    fields = SCALARS[model]
    r = rng.random()
    if allow_fn and rng.random() < 0.15:
        return gen_fn(rng, model)
    if depth < 2 and r < 0.18:
        return {"k": rng.choice(["and", "or"]), "a": gen_scalar(rng, model, depth + 1),
                "b": gen_scalar(rng, model, depth + 1)}
    if depth < 2 and r < 0.26:
        return {"k": "not", "a": gen_scalar(rng, model, depth + 1)}
    f = rng.choice(sorted(fields))
    if fields[f] == "str":
        vals = STR_VALUES[f]
        if r < 0.55:
            v = rng.choice(vals)
            fn = rng.choice(["startswith", "contains", "endswith"])
            n = rng.randint(1, len(v))
            s = v[:n] if fn == "startswith" else (v[-n:] if fn == "endswith" else v[n // 2:n // 2 + max(1, n // 2)])
            return {"k": "str", "fn": fn, "f": f, "s": s}
        if r < 0.7:
            return {"k": "in", "f": f, "vs": sorted(rng.sample(vals, rng.randint(1, 3)))}
        return {"k": "cmp", "f": f, "op": rng.choice(["eq", "ne", "lt", "ge"]), "v": rng.choice(vals)}
    if r < 0.4:
        return {"k": "in", "f": f, "vs": sorted(rng.sample(range(0, 7), rng.randint(1, 3)))}
    return {"k": "cmp", "f": f, "op": rng.choice(sorted(OPS)), "v": rng.randint(0, 6)}


def gen_nav(rng, model):
    """Positive to-one navigation conjunct (depth 1 or 2); None if model has none."""
    rels = sorted(TO_ONE[model])
    if not rels:
        return None
    r1 = rng.choice(rels)
    path = [r1]
    tgt = TO_ONE[model][r1][1]
    if TO_ONE[tgt] and rng.random() < 0.4:
        r2 = rng.choice(sorted(TO_ONE[tgt]))
        path.append(r2)
        tgt = TO_ONE[tgt][r2][1]
    fields = SCALARS[tgt]
    f = rng.choice(sorted(fields))
    if fields[f] == "str":
        return {"k": "nav", "path": path, "f": f, "op": rng.choice(["eq", "eq", "ge", "lt"]),
                "v": rng.choice(STR_VALUES[f])}
    # no "ne": OData says `null ne x` is true while SQL makes it unknown - the one
    # comparison where a NULL foreign key would make the two legitimately disagree
    return {"k": "nav", "path": path, "f": f, "op": rng.choice(["eq", "lt", "le", "gt", "ge"]),
            "v": rng.randint(0, 6)}


def gen_coll(rng, model):
    rels = sorted(TO_MANY[model])
    if not rels:
        return None
    rel = rng.choice(rels)
    tgt = TO_MANY[model][rel][0]
    q = rng.choice(["any", "any", "all", "any0"])
    t = {"k": "coll", "rel": rel, "q": q}
    if q != "any0":
        t["a"] = gen_scalar(rng, tgt, 1)
    return t


def gen_template(rng, model, allow_nav=True, allow_coll=True, want_nav=False, annotated=False,
                 allow_all=True, allow_fn=True, allow_coll2=False):
    """A top-level filter for ``model``."""
    parts = []
    if annotated and rng.random() < 0.5:
        parts.append({"k": "ann", "f": "rating_plus", "op": rng.choice(sorted(OPS)),
                      "v": rng.randint(1, 7)})
    if allow_nav and (want_nav or rng.random() < 0.45):
        nav = gen_nav(rng, model)
        if nav:
            parts.append(nav)
            if rng.random() < 0.2:
                nav2 = gen_nav(rng, model)
                if nav2:
                    parts.append(nav2)
    if allow_coll2 and model == "Author" and rng.random() < 0.35:
        # lambda whose owner is a two-step to-many path: posts/comments/any(c: ...)
        parts.append({"k": "coll2", "rels": ["posts", "comments"], "q": "any",
                      "a": gen_scalar(rng, "Comment", 1)})
    if allow_coll2 and model in M2M and rng.random() < 0.2:
        # collection reached through a many-to-many relation; the body may navigate back
        # through the same relation (b/editors/name eq 'x')
        rel = sorted(M2M[model])[0]
        tgt, back, _ = M2M[model][rel]
        t = {"k": "m2m", "rel": rel}
        if rng.random() < 0.6:
            t["back"] = back
            t["f"] = "name" if model == "Author" else "title"
            t["v"] = rng.choice(STR_VALUES[t["f"]])
        else:
            t["a"] = gen_scalar(rng, tgt, 1, allow_fn=False)
        parts.append(t)
    if allow_coll and rng.random() < 0.25:
        c = gen_coll(rng, model)
        if c and c["q"] == "all" and not allow_all:
            c["q"] = "any"
        if c:
            if rng.random() < 0.3:
                c = {"k": rng.choice(["or", "and"]), "a": c, "b": gen_scalar(rng, model, 1)}
            elif rng.random() < 0.2:
                c = {"k": "not", "a": c}
            parts.append(c)
    if not parts or rng.random() < 0.6:
        parts.append(gen_scalar(rng, model))
    rng.shuffle(parts)
    t = parts[0]
    for p in parts[1:]:
        t = {"k": "and", "a": t, "b": p}
    return t


# ---------------------------------------------------------------- rendering
def _lit(v):
    if isinstance(v, str):
        return "'" + v.replace("'", "''") + "'"
    return str(v)


def render(t, prefix=""):
    """OData text of a template.  ``prefix`` is the lambda variable path inside lambdas."""
    k = t["k"]
    if k == "cmp" or k == "ann":
        return "%s%s %s %s" % (prefix, t["f"], t["op"], _lit(t["v"]))
    if k == "fn":
        if t["fn"] == "substring" and "m" in t:
            call = "substring(%s%s, %d, %d)" % (prefix, t["f"], t["n"], t["m"])
        elif t["fn"] == "substring":
            call = "substring(%s%s, %d)" % (prefix, t["f"], t["n"])
        else:
            call = "%s(%s%s)" % (t["fn"], prefix, t["f"])
        return "%s %s %s" % (call, t["op"], _lit(t["v"]))
    if k == "in":
        vs = t["vs"]
        inner = ", ".join(_lit(v) for v in vs)
        if len(vs) == 1:
            inner += ","
        return "%s%s in (%s)" % (prefix, t["f"], inner)
    if k == "str":
        return "%s(%s%s, %s)" % (t["fn"], prefix, t["f"], _lit(t["s"]))
    if k == "not":
        return "not (%s)" % render(t["a"], prefix)
    if k in ("and", "or"):
        return "(%s) %s (%s)" % (render(t["a"], prefix), k, render(t["b"], prefix))
    if k == "nav":
        return "%s%s/%s %s %s" % (prefix, "/".join(t["path"]), t["f"], t["op"], _lit(t["v"]))
    if k == "m2m":
        if "back" in t:
            return "%s%s/any(b: b/%s/%s eq %s)" % (prefix, t["rel"], t["back"], t["f"], _lit(t["v"]))
        return "%s%s/any(b: %s)" % (prefix, t["rel"], render(t["a"], "b/"))
    if k == "coll2":
        return "%s%s/any(c: %s)" % (prefix, "/".join(t["rels"]), render(t["a"], "c/"))
    if k == "coll":
        if t["q"] == "any0":
            return "%s%s/any()" % (prefix, t["rel"])
        v = LVAR[t["rel"]]
        return "%s%s/%s(%s: %s)" % (prefix, t["rel"], t["q"], v, render(t["a"], v + "/"))
    raise ValueError(t)


def needed_rels(t, model):
    """To-one relationships (as (owner model, rel key) in traversal order) that the
    filter navigates at top level - the joins the ORM shorthand has to provide."""
    out = []
    k = t["k"]
    if k == "nav":
        m = model
        for r in t["path"]:
            if (m, r) not in out:
                out.append((m, r))
            m = TO_ONE[m][r][1]
    elif k in ("and", "or"):
        for x in needed_rels(t["a"], model) + needed_rels(t["b"], model):
            if x not in out:
                out.append(x)
    elif k == "not":
        out = needed_rels(t["a"], model)
    return out


def uses(t, kind):
    if t["k"] == kind:
        return True
    return any(uses(t[c], kind) for c in ("a", "b") if isinstance(t.get(c), dict))


# ---------------------------------------------------------------- evaluation
def evaluate(t, row, db, model):
    """Python meaning of template ``t`` on ``row`` of ``model`` in reference database
    ``db`` = {"Author": [rows], "Post": [...], "Comment": [...]} (rows are dicts)."""
    k = t["k"]
    if k == "cmp":
        return OPS[t["op"]](row[t["f"]], t["v"])
    if k == "ann":
        return OPS[t["op"]](row["rating"] + 1, t["v"])
    if k == "fn":
        x = row[t["f"]]
        fn = t["fn"]
        if fn == "tolower":
            x = x.lower()
        elif fn == "toupper":
            x = x.upper()
        elif fn == "trim":
            x = x.strip(" ")
        elif fn == "length":
            x = len(x)
        elif fn == "substring":
            x = x[t["n"]:t["n"] + t["m"]] if "m" in t else x[t["n"]:]
        return OPS[t["op"]](x, t["v"])
    if k == "in":
        return row[t["f"]] in t["vs"]
    if k == "str":
        v, s = row[t["f"]], t["s"]
        if t["fn"] == "startswith":
            return v.startswith(s)
        if t["fn"] == "endswith":
            return v.endswith(s)
        return s in v
    if k == "not":
        return not evaluate(t["a"], row, db, model)
    if k == "and":
        return evaluate(t["a"], row, db, model) and evaluate(t["b"], row, db, model)
    if k == "or":
        return evaluate(t["a"], row, db, model) or evaluate(t["b"], row, db, model)
    if k == "nav":
        m, r = model, row
        for rel in t["path"]:
            fk, tgt = TO_ONE[m][rel]
            key = r[fk]
            if key is None:
                return False
            nxt = [x for x in db[tgt] if x["id"] == key]
            if not nxt:
                return False
            m, r = tgt, nxt[0]
        return OPS[t["op"]](r[t["f"]], t["v"])
    if k == "m2m":
        tgt, back, col = M2M[model][t["rel"]]
        pairs = db.get("PostEditors", [])
        members = [x for x in db[tgt] if any(p[col] == row["id"] and p[1 - col] == x["id"]
                                             for p in pairs)]
        if "back" not in t:
            return any(evaluate(t["a"], x, db, tgt) for x in members)
        # body navigates back through the relation: some related row of the member matches
        for x in members:
            for y in db[model]:
                if any(p[col] == y["id"] and p[1 - col] == x["id"] for p in pairs) \
                        and y[t["f"]] == t["v"]:
                    return True
        return False
    if k == "coll2":
        m, members = model, [row]
        for rel in t["rels"]:
            tgt, back = TO_MANY[m][rel]
            ids = {x["id"] for x in members}
            members = [x for x in db[tgt] if x[back] in ids]
            m = tgt
        return any(evaluate(t["a"], x, db, m) for x in members)
    if k == "coll":
        tgt, back = TO_MANY[model][t["rel"]]
        members = [x for x in db[tgt] if x[back] == row["id"]]
        if t["q"] == "any0":
            return bool(members)
        if t["q"] == "any":
            return any(evaluate(t["a"], x, db, tgt) for x in members)
        return all(evaluate(t["a"], x, db, tgt) for x in members)
    raise ValueError(t)


# ---------------------------------------------------------------- data
def gen_data(rng):
    na = rng.randint(2, 4)
    authors = [{"id": i + 1, "name": rng.choice(NAMES)} for i in range(na)]
    labels = [{"id": i + 1, "name": rng.choice(NAMES)} for i in range(rng.randint(1, 3))]
    kinds = [{"id": i + 1, "name": rng.choice(NAMES)} for i in range(rng.randint(1, 3))]
    npo = rng.randint(3, 6)
    posts = [{"id": i + 1, "title": rng.choice(TITLES), "rating": rng.randint(0, 6),
              "author_id": rng.choice([None] + [a["id"] for a in authors] * 2),
              "tag_id": rng.choice([None] + [x["id"] for x in labels] * 2)}
             for i in range(npo)]
    nc = rng.randint(3, 8)
    comments = [{"id": i + 1, "body": rng.choice(BODIES),
                 "post_id": rng.choice([p["id"] for p in posts]),
                 "writer_id": rng.choice([None] + [a["id"] for a in authors] * 2),
                 "co_writer_id": rng.choice([None] + [a["id"] for a in authors] * 2),
                 "tag_id": rng.choice([None] + [x["id"] for x in kinds] * 2)}
                for i in range(nc)]
    pairs = sorted({(rng.choice(posts)["id"], rng.choice(authors)["id"])
                    for _ in range(rng.randint(0, 6))})
    return {"Author": authors, "Post": posts, "Comment": comments, "Label": labels,
            "Kind": kinds, "PostEditors": [list(p) for p in pairs]}


# ---------------------------------------------------------------- structure helpers
def nav_paths(t):
    """Paths (tuples of to-one relationship keys) of all navigation conjuncts."""
    if t["k"] == "nav":
        return [tuple(t["path"])]
    out = []
    for c in ("a", "b"):
        if isinstance(t.get(c), dict):
            out += nav_paths(t[c])
    return out


def path_table(root, path):
    m = root
    for rel in path:
        m = TO_ONE[m][rel][1]
    return TABLE[m]


def uses_all(t):
    if t["k"] == "coll" and t["q"] == "all":
        return True
    return any(uses_all(t[c]) for c in ("a", "b") if isinstance(t.get(c), dict))


def shape_of(t):
    """(shape, literals): the template with its literal values taken out - statements
    of one shape share a compiled-cache entry."""
    lits = []

    def walk(x):
        k = x["k"]
        if k in ("cmp", "ann", "nav", "fn"):
            lits.append((x["v"], x.get("n"), x.get("m")))
            return (k, x.get("fn"), tuple(x.get("path", ())), x["f"], x["op"], "m" in x)
        if k == "in":
            lits.append(tuple(x["vs"]))
            return (k, x["f"], len(x["vs"]))
        if k == "str":
            lits.append(x["s"])
            return (k, x["fn"], x["f"])
        if k == "m2m":
            if "back" in x:
                lits.append(x["v"])
                return (k, x["rel"], x["back"], x["f"])
            return (k, x["rel"], walk(x["a"]))
        if k == "coll2":
            return (k, tuple(x["rels"]), x["q"], walk(x["a"]))
        if k == "coll":
            return (k, x["rel"], x["q"], walk(x["a"]) if "a" in x else None)
        return (k,) + tuple(walk(x[c]) for c in ("a", "b") if isinstance(x.get(c), dict))

    return repr(walk(t)), repr(tuple(lits))


def vary_literals(rng, t):
    """Same shape, other literal values."""
    import copy
    t = copy.deepcopy(t)

    def walk(x):
        k = x["k"]
        if k in ("cmp", "nav", "ann"):
            if isinstance(x["v"], str):
                x["v"] = rng.choice(STR_VALUES.get(x["f"], NAMES))
            else:
                x["v"] = rng.randint(0, 7)
        elif k == "fn":
            if x["fn"] in ("length", "floor", "ceiling", "round"):
                x["v"] = rng.randint(0, 6)
            else:
                v = rng.choice(STR_VALUES.get(x["f"], NAMES))
                if x["fn"] == "substring":
                    x["n"] = rng.randint(0, 2)
                    if "m" in x:
                        x["m"] = rng.randint(1, 3)
                        x["v"] = v[x["n"]:x["n"] + x["m"]]
                    else:
                        x["v"] = v[x["n"]:]
                else:
                    x["v"] = v.upper() if x["fn"] == "toupper" else v
        elif k == "m2m" and "back" in x:
            x["v"] = rng.choice(STR_VALUES[x["f"]])
        elif k == "in":
            pool = STR_VALUES.get(x["f"]) if isinstance(x["vs"][0], str) else list(range(0, 7))
            x["vs"] = sorted(rng.sample(pool, min(len(x["vs"]), len(pool))))
        elif k == "str":
            v = rng.choice(STR_VALUES.get(x["f"], NAMES))
            x["s"] = v[:max(1, len(x["s"]))] if x["fn"] == "startswith" else v[-max(1, min(len(x["s"]), len(v))):]
            if x["fn"] == "contains":
                x["s"] = v[1:3] or v
        for c in ("a", "b"):
            if isinstance(x.get(c), dict):
                walk(x[c])

    walk(t)
    return t
