"""Host application model: what an application that uses odata-query owns - models, an
engine, live query objects, the global SQLAlchemy function registry.  Independent of the
repository's tests/ on purpose."""
