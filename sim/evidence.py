"""Evidence writer: /verif/evidence/<id>.json, rewritten by every tier run from what
that run measured (EVIDENCE.schema.json, level "exploration")."""
import json
import os

from . import env

EVID_DIR = os.path.join(env.VERIF_DIR, "evidence")


def write(prop, tier, seed, eng, cfg, res, report, violations_out, known_out,
          harness_errors, wall, workers):
    evid_dir = EVID_DIR
    if os.path.realpath(env.REPO) != os.path.realpath("/repo"):
        # a sensitivity / over-strictness self-test against a scratch copy (VERIF_REPO):
        # its evidence must not replace the evidence about /repo
        evid_dir = os.environ.get("VERIF_EVIDENCE_DIR") or os.path.join(
            "/tmp", "odq-evidence-scratch")
    os.makedirs(evid_dir, exist_ok=True)
    res = res or {}
    runs = res.get("runs", 0)
    batch_wall = res.get("wall_s") or 0.0
    per_hour = int(runs / batch_wall * 3600) if batch_wall else 0
    samples = []
    for p in res.get("samples", [])[:3]:
        samples.append(p)
    for v, path in violations_out[:2]:
        samples.append({"violating_plan": v.get("plan"), "replay": path})
    if not samples:
        samples = [{"note": "no run completed"}]
    cov = {
        "evaluations": int(runs + report.get("sweep", {}).get("children", 0)
                           + report.get("determinism", {}).get("executions", 0)),
        "distinct_nontrivial": int(res.get("distinct_nontrivial", 0)),
        "rule": eng.EVIDENCE_RULE,
        "samples": samples,
        "exhaustive": False,
        "simulated_runs": runs,
        "of_which_enumerated": res.get("systematic_runs", 0),
        "enumerated_families": getattr(eng, "SYSTEMATIC_DOC", None),
        "seeds": {"VERIF_SEED": seed, "run_numbers": [0, max(0, cfg["runs"] - 1)],
                  "prng": "random.Random(VERIF_SEED*1000003 + run) generates the whole plan "
                          "before execution; the executor draws nothing"},
        "runs_per_hour_this_machine": per_hour,
        "seeds_per_hour_this_machine": per_hour,
        "workers": workers,
        "simulated_time": {"unit": eng.TIME_UNIT, "total": res.get("events", 0),
                           "ops": res.get("ops", 0)},
        "faults_fired": res.get("faults", {}),
        "reach_probes": res.get("probes", {}),
        "scheduler": res.get("stats", {}),
        "distinct_schedules_all": res.get("distinct_schedules", 0),
        "fault_free_runs": {"runs": res.get("faultfree_runs", 0),
                            "violating": res.get("viol_in_faultfree", 0)},
        "fault_carrying_runs": {"runs": res.get("faulty_runs", 0),
                                "violating": res.get("viol_in_faulty", 0)},
        "code_locations_hit_by_preemptions_and_faults": len(res.get("where", [])),
        "code_locations_sample": res.get("where", [])[:40],
        "determinism_selftest": report.get("determinism", {}),
        "process_level_histories": report.get("sweep", {}),
        "components": eng.COMPONENTS,
        "extra": res.get("extra", {}),
        "violating_runs_before_known_finding_filter": res.get("violating_runs", 0),
        "known_findings_reported": [kf["id"] for kf, _ in known_out],
        "harness_errors": harness_errors[:10],
        "not_covered": eng.NOT_COVERED,
    }
    doc = {
        "property_id": prop, "tier": tier, "seed": seed, "level": "exploration",
        "coverage": cov, "assumptions": eng.ASSUMPTIONS, "wall_s": round(wall, 2),
        "violations": len(violations_out),
    }
    path = os.path.join(evid_dir, "%s.json" % prop)
    tmp = path + ".tmp"
    with open(tmp, "w") as f:
        json.dump(doc, f, indent=1, default=repr)
    os.replace(tmp, path)
    return path
