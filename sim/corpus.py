"""Workload texts for the simulations: valid filters, near-duplicates and broken ones.

The corpus is workload, not the object of any check: nothing is asserted about what a
text parses *to*, only that it parses to the same thing as on fresh instances.  So the
generator need not be perfectly valid - a text it believes valid but the library
rejects is simply one more error case.

Everything is derived from the ``random.Random`` passed in; no set iteration, no ids.
"""

IDENTS = ["name", "id", "title", "rating", "author", "posts", "a", "b", "x", "y",
          "created_at", "Name", "NAME", "meter_id", "ns.field", "_priv", "n1"]
REL = ["author", "post", "writer", "blogpost", "owner"]
COLL = ["posts", "comments", "tags", "items"]
LVARS = ["p", "c", "t", "x"]

STRINGS = ["'abc'", "'ABC'", "'Abc'", "''", "'o''neil'", "'a b'", "'a  b'", "' a'",
           "'and'", "'x eq 1'", "'%'", "'_'", "'1'", "'ann'", "'Ann'", "'(' ", "'é'",
           "'a,b'", "'not '"]
INTS = ["0", "1", "-1", "+3", "42", "007", "123456789012"]
DECS = ["1.0", "-2.5", "3e4", "1.5e-3", "+0.1", "10.0"]
BOOLS = ["true", "false", "TRUE", "False"]
GUIDS = ["01234567-89ab-cdef-0123-456789abcdef", "01234567-89AB-CDEF-0123-456789ABCDEF"]
# the last two match the DATE regex but are no calendar dates
DATES = ["2019-01-01", "2020-12-31", "2019-02-31", "2019-04-31"]
TIMES = ["14:00:00", "23:59:59.123", "08:30"]
DATETIMES = ["2019-01-01T14:00:00Z", "2020-02-29T23:59:59+01:00", "2019-01-01T14:00",
             "2019-01-01T14:00:00.5-05:30", "2019-02-30T10:00:00Z", "2021-02-29T23:59:59Z"]
DURATIONS = ["duration'P1D'", "duration'PT1H30M'", "duration'-P1Y2M3DT4H5M6.7S'",
             "Duration'P2D'"]
GEOS = ["geography'POINT(1 2)'", "geography'SRID=0;Point(142.1 64.1)'"]

ARITH = ["add", "sub", "mul", "div", "mod"]
CMP = ["eq", "ne", "lt", "le", "gt", "ge"]
LOGIC = ["and", "or"]

FUNCS = {
    # name: list of allowed arg counts
    "concat": [2], "contains": [2], "endswith": [2], "indexof": [2], "length": [1],
    "startswith": [2], "substring": [2, 3], "matchesPattern": [2], "tolower": [1],
    "toupper": [1], "trim": [1], "year": [1], "month": [1], "day": [1], "hour": [1],
    "minute": [1], "second": [1], "fractionalseconds": [1], "totalseconds": [1],
    "date": [1], "time": [1], "totaloffsetminutes": [1], "mindatetime": [0],
    "maxdatetime": [0], "now": [0], "round": [1], "floor": [1], "ceiling": [1],
    "geo.distance": [2], "geo.length": [1], "geo.intersects": [2], "hassubset": [2],
    "hassubsequence": [2],
}
FUNC_NAMES = sorted(FUNCS)
UNKNOWN_FUNCS = ["foo", "geo.area", "lenght", "substr", "lower", "Contains", "TOLOWER",
                 "max", "cast", "isof", "geo.Distance", "exists"]
NS_FUNCS = ["my.func", "ns.sub.f", "odata.concat"]
ILLEGAL = ["#", "$", ";", '"', "!", "?", "\\", "[", "{", "|", "&", "%", "@", "`", "~"]


def _ws(rng):
    return rng.choice([" ", " ", " ", "  ", "\t", " \n "])


def _digits(rng, n):
    return "".join(rng.choice("0123456789") for _ in range(n))


def random_literal(rng):
    """Literals built from random parts (not from the fixed lists): values nobody thought
    of in advance - out-of-range dates and times, long numbers, odd strings and names."""
    k = rng.randrange(9)
    if k == 0:
        return rng.choice(["", "-", "+"]) + _digits(rng, rng.randint(1, 22))
    if k == 1:
        return "%s.%s%s" % (_digits(rng, rng.randint(1, 4)), _digits(rng, rng.randint(1, 6)),
                            rng.choice(["", "e5", "E-3", "e+10"]))
    if k == 2:
        body = "".join(rng.choice("abc XYZ''%_\\/()#,:=\u00e9\u4e2d") for _ in range(rng.randint(0, 8)))
        if body.count("'") % 2:
            body += "'"
        return "'" + body + "'"
    if k == 3:
        return "%s-%s-%s" % (rng.choice(["1999", "2020", "2021", "9999", "1000"]),
                             rng.choice(["00", "01", "02", "06", "11", "12", "13"]),
                             rng.choice(["00", "01", "28", "29", "30", "31", "32"]))
    if k == 4:
        return "%s:%s%s" % (rng.choice(["00", "09", "12", "23", "24"]), rng.choice(["00", "30", "59"]),
                            rng.choice(["", ":00", ":59", ":30.5", ":59.999999999999"]))
    if k == 5:
        d = "%s-%s-%s" % (rng.choice(["2019", "2020", "2021"]), rng.choice(["02", "04", "12"]),
                          rng.choice(["28", "29", "30", "31"]))
        return d + "T" + rng.choice(["00:00", "23:59:59", "12:30:00.123"]) + \
            rng.choice(["", "Z", "+14:00", "-00:30", "+23:59"])
    if k == 6:
        g = "".join(rng.choice("0123456789abcdefABCDEF") for _ in range(32))
        return "%s-%s-%s-%s-%s" % (g[:8], g[8:12], g[12:16], g[16:20], g[20:])
    if k == 7:
        return "duration'%sP%s%sT%s'" % (rng.choice(["", "-", "+"]),
                                         rng.choice(["", "1Y", "12M", "400D", "1Y2M3D"]),
                                         "", rng.choice(["1H", "59M", "1.5S", "1H2M3.25S"]))
    name = rng.choice("abcxyz_") + "".join(rng.choice("abcXYZ019_") for _ in range(rng.randint(0, 9)))
    return name


def literal(rng):
    if rng.random() < 0.25:
        return random_literal(rng)
    k = rng.randrange(12)
    if k == 0:
        return rng.choice(INTS)
    if k == 1:
        return rng.choice(DECS)
    if k in (2, 3):
        return rng.choice(STRINGS).strip()
    if k == 4:
        return rng.choice(BOOLS)
    if k == 5:
        return rng.choice(["null", "NULL", "Null"])
    if k == 6:
        return rng.choice(GUIDS)
    if k == 7:
        return rng.choice(DATES)
    if k == 8:
        return rng.choice(TIMES)
    if k == 9:
        return rng.choice(DATETIMES)
    if k == 10:
        return rng.choice(DURATIONS)
    return rng.choice(GEOS)


SEGS = ["author", "address", "city", "name", "post", "owner", "parent"]


def path(rng):
    k = rng.randrange(7)
    if k == 6:
        # long paths over a small vocabulary: different paths share inner segments, and
        # a path may repeat a segment (parent/parent/name)
        return "/".join(rng.choice(SEGS) for _ in range(rng.randint(3, 6)))
    if k <= 2:
        return rng.choice(IDENTS)
    if k == 3:
        return rng.choice(REL) + "/" + rng.choice(IDENTS)
    if k == 4:
        return rng.choice(REL) + "/" + rng.choice(REL) + "/" + rng.choice(IDENTS)
    return rng.choice(REL) + "/" + rng.choice(REL)


def list_expr(rng, depth):
    n = rng.choice([1, 2, 2, 3, 4])
    items = [value(rng, depth + 1) if rng.random() < 0.3 else literal(rng) for _ in range(n)]
    sep = rng.choice([",", ", ", " , "])
    if n == 1:
        return "(" + items[0] + rng.choice([",", ", ", " ,"]) + ")"
    return "(" + sep.join(items) + ")"


def call(rng, depth):
    r = rng.random()
    if r < 0.08:
        name = rng.choice(NS_FUNCS)
        nargs = rng.randrange(0, 4)
        if rng.random() < 0.4 and nargs:
            args = ["%s=%s" % (rng.choice(["a", "b", "k", "name"]), value(rng, depth + 1))
                    for _ in range(min(nargs, 2))]
            return name + "(" + ", ".join(args) + ")"
    else:
        name = rng.choice(FUNC_NAMES)
        nargs = rng.choice(FUNCS[name])
    args = [value(rng, depth + 1) for _ in range(nargs)]
    sep = rng.choice([",", ", ", " , "])
    inner = sep.join(args)
    if nargs == 1 and rng.random() < 0.3:
        inner = " " + inner + " "
    return name + "(" + inner + ")"


def value(rng, depth=0):
    """A non-boolean-ish expression."""
    r = rng.random()
    if depth >= 3 or r < 0.35:
        return literal(rng)
    if r < 0.65:
        return path(rng)
    if r < 0.80:
        return call(rng, depth)
    if r < 0.90:
        return "%s%s%s%s%s" % (value(rng, depth + 1), _ws(rng), rng.choice(ARITH), _ws(rng),
                               value(rng, depth + 1))
    if r < 0.95:
        return "-" + rng.choice(["", " "]) + value(rng, depth + 1)
    return "(" + rng.choice(["", " "]) + value(rng, depth + 1) + rng.choice(["", " "]) + ")"


def lambda_expr(rng, depth):
    coll = rng.choice(COLL)
    if rng.random() < 0.3:
        coll = rng.choice(REL) + "/" + coll
    op = rng.choice(["any", "all", "any", "ANY", "All"])
    if op.lower() == "any" and rng.random() < 0.2:
        return coll + "/" + op + "(" + rng.choice(["", " "]) + ")"
    v = rng.choice(LVARS)
    body = boolean(rng, depth + 1, lvar=v)
    return "%s/%s(%s:%s%s)" % (coll, op, v, rng.choice(["", " "]), body)


def comparison(rng, depth, lvar=None):
    left = value(rng, depth + 1)
    if lvar and rng.random() < 0.7:
        left = lvar + "/" + rng.choice(IDENTS[:6])
    r = rng.random()
    if r < 0.15:
        return "%s%sin%s%s" % (left, _ws(rng), _ws(rng), list_expr(rng, depth))
    return "%s%s%s%s%s" % (left, _ws(rng), rng.choice(CMP + [c.upper() for c in CMP[:2]]),
                           _ws(rng), value(rng, depth + 1))


def boolean(rng, depth=0, lvar=None):
    r = rng.random()
    if depth >= 3 or r < 0.45:
        return comparison(rng, depth, lvar)
    if r < 0.70:
        return "%s%s%s%s%s" % (boolean(rng, depth + 1, lvar), _ws(rng),
                               rng.choice(LOGIC + ["AND", "Or"]), _ws(rng),
                               boolean(rng, depth + 1, lvar))
    if r < 0.78:
        return "not" + _ws(rng) + boolean(rng, depth + 1, lvar)
    if r < 0.86:
        return "(" + boolean(rng, depth + 1, lvar) + ")"
    if r < 0.93 and depth < 2:
        return lambda_expr(rng, depth)
    fn = rng.choice(["contains", "startswith", "endswith", "hassubset", "geo.intersects"])
    return "%s(%s, %s)" % (fn, value(rng, depth + 1), value(rng, depth + 1))


def valid(rng):
    r = rng.random()
    if r < 0.85:
        return boolean(rng)
    return value(rng)


# ----------------------------------------------------------------------- mutators
def near_duplicate(rng, text):
    """A text that collides with ``text`` under sloppy normalisation (case, blanks)
    but may parse to something else."""
    k = rng.randrange(6)
    if k == 0:
        return text.upper()
    if k == 1:
        return text.lower()
    if k == 2:
        return text.swapcase()
    if k == 3:
        return " " + text + " "
    if k == 4:
        return text.replace(" ", "  ")
    return text.replace("  ", " ").strip()


def syntax_error(rng, text):
    """Break ``text`` so that the parser (not the lexer) is likely to reject it."""
    k = rng.randrange(9)
    if k == 0 and len(text) > 3:      # truncate
        cut = rng.randrange(1, len(text))
        return text[:cut]
    if k == 1:
        return text + rng.choice([" eq", " and", " )", ")", " (", ",", " or ", " eq eq 1"])
    if k == 2:
        return rng.choice([")", "eq ", "and ", ", ", "( "]) + text
    if k == 3 and " " in text:        # drop a blank-separated word
        parts = text.split(" ")
        i = rng.randrange(len(parts))
        return " ".join(parts[:i] + parts[i + 1:])
    if k == 4 and " " in text:        # duplicate a word
        parts = text.split(" ")
        i = rng.randrange(len(parts))
        return " ".join(parts[:i + 1] + parts[i:])
    if k == 5:
        return text.replace("(", "", 1) if "(" in text else text + " 1 2"
    if k == 6:
        return text.replace(")", "", 1) if ")" in text else "(" + text
    if k == 7:
        return text + " " + text
    return text.replace(" eq ", " eq eq ", 1) if " eq " in text else text + " name"


def token_error(rng, text):
    """Insert a character no token matches after some good prefix."""
    ch = rng.choice(ILLEGAL)
    pos = rng.choice([0, len(text), rng.randrange(0, len(text) + 1),
                      rng.randrange(0, len(text) + 1)])
    return text[:pos] + ch + text[pos:]


def function_error(rng, depth=0):
    r = rng.random()
    if r < 0.1:
        name = rng.choice("fgh") + "".join(rng.choice("abcdefgh") for _ in range(rng.randint(2, 7)))
        nargs = rng.randrange(0, 3)
    elif r < 0.45:
        name = rng.choice(UNKNOWN_FUNCS)
        nargs = rng.randrange(0, 3)
    else:
        name = rng.choice(FUNC_NAMES)
        ok = FUNCS[name]
        nargs = rng.choice([n for n in range(0, 5) if n not in ok])
    args = [value(rng, 2) for _ in range(nargs)]
    c = name + "(" + ", ".join(args) + ")"
    k = rng.randrange(4)
    if k == 0:
        return c
    if k == 1:
        return "%s eq %s" % (c, literal(rng))
    if k == 2:
        return "%s and %s eq %s" % (comparison(rng, 2), c, literal(rng))
    return "%s eq %s or %s" % (c, literal(rng), comparison(rng, 2))


def any_text(rng, mix=None):
    """One workload text with its intended class."""
    r = rng.random()
    if r < 0.45:
        return "valid", valid(rng)
    if r < 0.65:
        return "syntax", syntax_error(rng, valid(rng))
    if r < 0.78:
        return "token", token_error(rng, valid(rng))
    if r < 0.90:
        return "function", function_error(rng)
    return "neardup", near_duplicate(rng, valid(rng))


# Hand-written members that cover every token kind with an action and every production
# at least once; used as probes and as replacement candidates for the minimiser.
FIXED = [
    "name eq 'abc'",
    "id eq 1",
    "a",
    "1",
    "name eq 'abc' and rating gt 3",
    "name eq 'abc' and rating gt 3 or not (id in (1, 2, 3))",
    "contains(tolower(name), 'a') and startswith(title, 'T')",
    "substring(name, 1, 2) eq 'bc'",
    "author/name eq 'ann' and post/author/name ne null",
    "posts/any(p: p/rating ge 3 and p/title ne 'x')",
    "posts/all(p: p/rating mul 2 sub 1 lt 10.5)",
    "posts/any()",
    "created_at gt 2019-01-01T14:00:00Z and d eq 2019-01-01 and t lt 14:00:00",
    "dur eq duration'P1DT2H' and g eq 01234567-89ab-cdef-0123-456789abcdef",
    "geo.distance(loc, geography'POINT(1 2)') lt 10.0",
    "x in ('a', 'b') or y in (1,)",
    "-a add 3 div 2 mod 5 le +7",
    "my.func(a=1, b='x') eq true",
    "ns.field eq null and not b",
    "year(created_at) eq 2019 and now() gt created_at",
    "concat(concat(a, 'x'), b) eq 'axb'",
    "((a eq 1))",
    "a eq 1 or b eq 2 and c eq 3 or d eq 4",
    "author/address/city/name eq 'x'",
    "publisher/address/city eq 'y' and owner/parent/parent/parent/name ne null",
    "post/author/address/city/name eq author/address/city",
    "d eq 2019-02-31 or d eq 2019-02-31",
    "created_at lt 2019-02-30T10:00:00Z",
]

FIXED_BAD = [
    "name eq",
    "name eq 'abc' and",
    "name eq 'abc' and rating gt",
    "(name eq 'abc'",
    "name eq 'abc')",
    "name eq 'abc' and rating # 3",
    "#",
    "name eq 'abc",
    "foo(name) eq 1",
    "tolower(a, b) eq 'x'",
    "substring(a) eq 'x'",
    "posts/any(p: p/rating ge)",
    "posts/any(p: p/rating ge 3",
    "x in (1, 2",
    "x in (1, 2, foo(3))",
    "a eq 1 b eq 2",
    "",
    " ",
    "and",
    "my.func(a=1, b=2, c=3)",
]
