"""Parallel batch driver: many seeded simulated runs across worker processes.

Workers are forked before anything in the main process has used the library, set up
their engine (which forks the pristine-oracle zygote) and then execute chunks of run
numbers.  A chunk returns plain data only.
"""
import faulthandler
import hashlib
import importlib
import multiprocessing
import os
import sys
import time
from concurrent.futures import ProcessPoolExecutor, as_completed
from concurrent.futures.process import BrokenProcessPool

from . import minimise as _min

_ENGINE = None
_CHUNK_WATCHDOG_S = 1200
_RUN_TIMEOUT_S = 180


# --------------------------------------------------------------------------- hermetic runs
def hermetic(fn, args, timeout=_RUN_TIMEOUT_S):
    """Run fn(*args) in a forked child and return ("ok", value) / ("error", text).

    Every simulated run (and every re-execution by the minimiser) starts in a copy of
    the worker as it was right after importing the library: nothing the library keeps
    at module or class level can leak from one run into the next, so one seed is one
    exactly repeatable execution even for code that does keep such state - and a fresh
    interpreter replays it exactly."""
    import pickle
    import select
    import signal
    import traceback
    r, w = os.pipe()
    pid = os.fork()
    if pid == 0:
        code = 0
        try:
            os.close(r)
            try:
                res = ("ok", fn(*args))
            except BaseException as e:
                res = ("error", "%r\n%s" % (e, traceback.format_exc()[-3000:]))
            data = pickle.dumps(res, protocol=4)
            off = 0
            while off < len(data):
                off += os.write(w, data[off:off + 65536])
        except BaseException:
            code = 3
        finally:
            os._exit(code)
    os.close(w)
    chunks = []
    deadline = time.time() + timeout
    timed_out = False
    while True:
        left = deadline - time.time()
        if left <= 0:
            timed_out = True
            break
        ready, _, _ = select.select([r], [], [], min(left, 5.0))
        if ready:
            b = os.read(r, 1 << 20)
            if not b:
                break
            chunks.append(b)
    os.close(r)
    if timed_out:
        try:
            os.kill(pid, signal.SIGKILL)
        except OSError:
            pass
    os.waitpid(pid, 0)
    if timed_out:
        return ("error", "hermetic child exceeded %ss and was killed" % timeout)
    try:
        return pickle.loads(b"".join(chunks))
    except Exception as e:
        return ("error", "hermetic child returned no result: %r" % (e,))


def _child_make_run(seed, run, deep):
    eng = _ENGINE
    pr = eng.get_pristine()
    before = set(pr.cache)
    plan = eng.make_plan(seed, run)
    res = eng.run_plan(plan, deep=deep)
    new = {k: pr.cache[k] for k in pr.cache if k not in before}
    return plan, res, new


def _child_run(plan, deep):
    eng = _ENGINE
    pr = eng.get_pristine()
    before = set(pr.cache)
    res = eng.run_plan(plan, deep=deep)
    new = {k: pr.cache[k] for k in pr.cache if k not in before}
    return res, new


def run_plan_hermetic(eng, plan, deep=False):
    st, payload = hermetic(_child_run, (plan, deep))
    if st != "ok":
        raise RuntimeError(payload)
    res, new = payload
    eng.get_pristine().cache.update(new)
    return res


def make_and_run_hermetic(eng, seed, run, deep=False):
    st, payload = hermetic(_child_make_run, (seed, run, deep))
    if st != "ok":
        raise RuntimeError(payload)
    plan, res, new = payload
    eng.get_pristine().cache.update(new)
    return plan, res


def _worker_init(engine_name, opts):
    global _ENGINE
    faulthandler.enable()
    _ENGINE = importlib.import_module(engine_name)
    _ENGINE.worker_setup(opts)
    import atexit
    atexit.register(getattr(_ENGINE, "worker_teardown", lambda: None))


def _add(acc, d):
    for k, v in d.items():
        acc[k] = acc.get(k, 0) + v


def _sig(s):
    return hashlib.blake2b(s.encode(), digest_size=8).hexdigest()


def _chunk(job):
    """job = dict(seed, runs=[...], deep, want_plans, max_viol, min_budget)"""
    faulthandler.dump_traceback_later(_CHUNK_WATCHDOG_S, exit=True)
    try:
        eng = _ENGINE
        out = {
            "runs": 0, "events": 0, "ops": 0, "probes": {}, "faults": {}, "stats": {},
            "sigs": set(), "sigs_nt": set(), "where": set(), "violating_runs": 0,
            "violations": [],
            "digests": {}, "samples": [], "faulty_runs": 0, "faultfree_runs": 0,
            "viol_in_faulty": 0, "viol_in_faultfree": 0, "harness_errors": [],
            "leftover_streams": 0, "extra": {}, "known": {}, "known_counts": {},
            "known_only_runs": 0, "unknown_violating_runs": 0, "systematic_runs": 0,
        }
        if job.get("systematic") is not None:
            # an enumerated family of plans (every position of a fault / pre-emption,
            # every configuration of a small space) instead of seeded random ones
            items = eng.systematic_plans(job["seed"], job["systematic"])
        else:
            items = ((run, None) for run in job["runs"])
        for run, plan in items:
            try:
                if plan is None:
                    plan, res = make_and_run_hermetic(eng, job["seed"], run,
                                                      deep=job.get("deep", False))
                else:
                    res = run_plan_hermetic(eng, plan, deep=job.get("deep", False))
                    out["systematic_runs"] += 1
            except Exception as e:
                out["harness_errors"].append({"run": run, "error": repr(e)[:2000]})
                continue
            out["runs"] += 1
            out["events"] += res.get("events", 0)
            out["ops"] += res.get("n_ops", 0)
            _add(out["probes"], res.get("probes", {}))
            _add(out["faults"], res.get("faults", {}))
            _add(out["stats"], res.get("stats", {}))
            _add(out["extra"], res.get("extra", {}))
            sg = _sig(res.get("schedule_sig", ""))
            out["sigs"].add(sg)
            if res.get("nontrivial", True):
                out["sigs_nt"].add(sg)
            out["where"].update(res.get("where", ()))
            out["leftover_streams"] += res.get("leftover_streams", 0)
            faulty = bool(res.get("faulty", eng.plan_is_faulty(plan)))
            out["faulty_runs" if faulty else "faultfree_runs"] += 1
            if job.get("deep"):
                out["digests"][run] = res["digest"]
            if len(out["samples"]) < job.get("want_plans", 0):
                out["samples"].append(plan)
            if res["violations"]:
                out["violating_runs"] += 1
                out["viol_in_faulty" if faulty else "viol_in_faultfree"] += 1
                unknown, known_hits = [], {}
                for v in res["violations"]:
                    kf = eng.is_known(v, plan)
                    if kf is None:
                        unknown.append(v)
                    else:
                        known_hits.setdefault(kf["id"], v)
                if known_hits and not unknown:
                    out["known_only_runs"] += 1
                for kid, v in known_hits.items():
                    out["known_counts"][kid] = out["known_counts"].get(kid, 0) + 1
                    if kid not in out["known"]:
                        out["known"][kid] = _minimised(eng, job, run, plan, v, want_known=kid)
                if unknown:
                    out["unknown_violating_runs"] += 1
                    if len(out["violations"]) < job.get("max_viol", 2):
                        out["violations"].append(
                            _minimised(eng, job, run, plan, unknown[0], want_known=None))
        out["sigs"] = sorted(out["sigs"])
        out["sigs_nt"] = sorted(out["sigs_nt"])
        out["where"] = sorted(out["where"])
        return out
    finally:
        faulthandler.cancel_dump_traceback_later()


def _minimised(eng, job, run, plan, v, want_known):
    """Shrink ``plan`` while a violation of the same class (and the same known-finding
    status) persists; re-run the result with a deep log for the replay digest."""
    cls = eng.violation_class(v)

    def hits(r, p):
        out = []
        for x in r["violations"]:
            if eng.violation_class(x) != cls:
                continue
            kf = eng.is_known(x, p)
            if (kf["id"] if kf else None) == want_known:
                out.append(x)
        return out

    def still(p):
        return bool(hits(run_plan_hermetic(eng, p), p))

    small, tries = _min.minimise(plan, still, eng.shrink_candidates,
                                 budget=job.get("min_budget", 300))
    r2 = run_plan_hermetic(eng, small, deep=True)
    vs = hits(r2, small)
    return {"seed": job["seed"], "run": run, "violation": vs[0] if vs else v,
            "class": list(cls), "plan": small, "original_plan": plan,
            "minimise_tries": tries, "digest": r2["digest"],
            "reproduced_in_worker": bool(vs), "known": want_known}


class HarnessFailure(Exception):
    pass


def run_batch(engine_name, opts, seed, runs, workers=None, chunk=40, deep=False,
              want_plans=0, max_viol_total=6, min_budget=300, wall_limit_s=None,
              progress=None, systematic=()):
    """Execute run numbers ``runs`` (iterable of ints) plus the enumerated families
    described by ``systematic`` (one job each).  Returns merged result."""
    workers = workers or min(16, os.cpu_count() or 1)
    runs = list(runs)
    jobs = []
    for i in range(0, len(runs), chunk):
        jobs.append({"seed": seed, "runs": runs[i:i + chunk], "deep": deep,
                     "want_plans": 1 if (want_plans and i // chunk < want_plans) else 0,
                     "max_viol": 2, "min_budget": min_budget})
    for spec in systematic:
        jobs.append({"seed": seed, "runs": [], "systematic": spec, "deep": deep,
                     "want_plans": 0, "max_viol": 2, "min_budget": min_budget})
    merged = {
        "systematic_runs": 0,
        "runs": 0, "events": 0, "ops": 0, "probes": {}, "faults": {}, "stats": {},
        "sigs": set(), "sigs_nt": set(), "where": set(), "violating_runs": 0,
        "violations": [],
        "digests": {}, "samples": [], "faulty_runs": 0, "faultfree_runs": 0,
        "viol_in_faulty": 0, "viol_in_faultfree": 0, "harness_errors": [],
        "leftover_streams": 0, "extra": {}, "workers": workers, "skipped_runs": 0,
        "known": {}, "known_counts": {}, "known_only_runs": 0, "unknown_violating_runs": 0,
    }
    t0 = time.time()
    ctx = multiprocessing.get_context("fork")
    ex = ProcessPoolExecutor(max_workers=workers, mp_context=ctx,
                             initializer=_worker_init, initargs=(engine_name, opts))
    try:
        futs = [ex.submit(_chunk, j) for j in jobs]
        done = 0
        for f in as_completed(futs, timeout=wall_limit_s):
            try:
                r = f.result()
            except BrokenProcessPool as e:
                raise HarnessFailure("worker process died: %r" % (e,))
            done += 1
            for k in ("runs", "events", "ops", "violating_runs", "faulty_runs",
                      "faultfree_runs", "viol_in_faulty", "viol_in_faultfree",
                      "leftover_streams", "known_only_runs", "unknown_violating_runs",
                      "systematic_runs"):
                merged[k] += r[k]
            for k in ("probes", "faults", "stats", "extra", "known_counts"):
                _add(merged[k], r[k])
            for kid, rec in r["known"].items():
                merged["known"].setdefault(kid, rec)
            merged["sigs"].update(r["sigs"])
            merged["sigs_nt"].update(r["sigs_nt"])
            merged["where"].update(r["where"])
            merged["digests"].update(r["digests"])
            merged["samples"].extend(r["samples"])
            merged["harness_errors"].extend(r["harness_errors"])
            for v in r["violations"]:
                if len(merged["violations"]) < max_viol_total:
                    merged["violations"].append(v)
            if progress and done % max(50, len(jobs) // 20) == 0:
                progress(done, len(jobs), merged)
    except TimeoutError:
        raise HarnessFailure("batch exceeded wall limit of %ss" % wall_limit_s)
    finally:
        ex.shutdown(wait=True, cancel_futures=True)
    merged["wall_s"] = time.time() - t0
    merged["distinct_schedules"] = len(merged["sigs"])
    merged["distinct_nontrivial"] = len(merged["sigs_nt"])
    merged["sigs"] = None
    merged["sigs_nt"] = None
    merged["where"] = sorted(merged["where"])
    return merged
