"""Process environment: where the code under test lives, import of the real code.

The checks import odata_query from ``$VERIF_REPO`` (default /repo), i.e. from the
current working tree - it is pure Python, so "rebuild" means "import from there".
"""
import os
import sys

VERIF_DIR = os.path.dirname(os.path.dirname(os.path.abspath(__file__)))
REPO = os.path.abspath(os.environ.get("VERIF_REPO", "/repo"))

_done = False


def setup_path():
    """Put the repository first on sys.path; refuse a stale import from elsewhere."""
    global _done
    if _done:
        return
    if REPO in sys.path:
        sys.path.remove(REPO)
    sys.path.insert(0, REPO)
    if VERIF_DIR not in sys.path:
        sys.path.insert(1, VERIF_DIR)
    _done = True


def import_core():
    """Import parser, lexer, rewriter; returns the modules in a dict."""
    setup_path()
    import sly.lex
    import sly.yacc

    import odata_query
    import odata_query.ast
    import odata_query.exceptions
    import odata_query.grammar
    import odata_query.rewrite

    here = os.path.dirname(os.path.abspath(odata_query.__file__))
    want = os.path.join(REPO, "odata_query")
    if os.path.realpath(here) != os.path.realpath(want):
        raise RuntimeError(
            "HARNESS: odata_query imported from %s, expected %s" % (here, want)
        )
    return {
        "lex": sly.lex,
        "yacc": sly.yacc,
        "grammar": odata_query.grammar,
        "rewrite": odata_query.rewrite,
        "ast": odata_query.ast,
        "exceptions": odata_query.exceptions,
        "pkg_dir": here,
        "sly_dir": os.path.dirname(os.path.abspath(sly.lex.__file__)),
    }
