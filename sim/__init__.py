"""Deterministic simulation machinery for gorilla-co/odata-query (see /verif/DESIGN.md)."""
