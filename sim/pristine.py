"""History-free oracle: every reference value is computed in a process that has
imported the library and has never done anything else with it.

A *zygote* is forked from the worker before the worker touches the library.  For
every request the zygote forks a grandchild, the grandchild evaluates exactly one
request and exits.  So a reference value cannot be influenced by any other text, any
cache, any leftover instance state - it is "a fresh lexer and parser on that string" in
the strongest available sense.  Results are plain data and are memoised by the caller.
"""
import os
import pickle
import struct
import sys


def _write_msg(fd, obj):
    data = pickle.dumps(obj, protocol=4)
    os.write(fd, struct.pack("<I", len(data)))
    off = 0
    while off < len(data):
        off += os.write(fd, data[off:off + 65536])


def _read_exact(fd, n):
    chunks = []
    while n:
        b = os.read(fd, n)
        if not b:
            raise EOFError("pristine pipe closed")
        chunks.append(b)
        n -= len(b)
    return b"".join(chunks)


def _read_msg(fd):
    (n,) = struct.unpack("<I", _read_exact(fd, 4))
    return pickle.loads(_read_exact(fd, n))


class Pristine:
    """handler(request) -> plain data; evaluated in a pristine grandchild per request."""

    def __init__(self, handler):
        self.handler = handler
        self.cache = {}
        self.asked = 0
        req_r, req_w = os.pipe()
        res_r, res_w = os.pipe()
        pid = os.fork()
        if pid == 0:
            try:
                os.close(req_w)
                os.close(res_r)
                self._zygote(req_r, res_w)
            finally:
                os._exit(0)
        os.close(req_r)
        os.close(res_w)
        self.pid = pid
        self.req_w = req_w
        self.res_r = res_r

    def _zygote(self, req_r, res_w):
        while True:
            try:
                batch = _read_msg(req_r)
            except EOFError:
                return
            if batch is None:
                return
            out = []
            for req in batch:
                r, w = os.pipe()
                pid = os.fork()
                if pid == 0:
                    code = 0
                    try:
                        os.close(r)
                        try:
                            res = ("ok", self.handler(req))
                        except BaseException as e:  # handler must not raise; report
                            res = ("harness-error", repr(e))
                        _write_msg(w, res)
                    except BaseException:
                        code = 3
                    finally:
                        os._exit(code)
                os.close(w)
                try:
                    res = _read_msg(r)
                except EOFError:
                    res = ("harness-error", "pristine child died")
                os.close(r)
                os.waitpid(pid, 0)
                out.append(res)
            _write_msg(res_w, out)

    def ask_many(self, reqs):
        """reqs: list of hashable plain-data requests. Returns list of results."""
        missing = []
        seen = set()
        for r in reqs:
            if r not in self.cache and r not in seen:
                seen.add(r)
                missing.append(r)
        if missing:
            self.asked += len(missing)
            _write_msg(self.req_w, missing)
            res = _read_msg(self.res_r)
            for r, (st, val) in zip(missing, res):
                if st != "ok":
                    raise RuntimeError("HARNESS: pristine oracle failed on %r: %s" % (r, val))
                self.cache[r] = val
        return [self.cache[r] for r in reqs]

    def ask(self, req):
        return self.ask_many([req])[0]

    def close(self):
        try:
            _write_msg(self.req_w, None)
            os.close(self.req_w)
            os.close(self.res_r)
            os.waitpid(self.pid, 0)
        except OSError:
            pass
