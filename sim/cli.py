"""Entry point behind /verif/check.

  ./check C20 --tier quick|thorough        seeded search; exit 0 held / 1 violation / 2 harness
  ./check C20 --replay replays/<file>      re-execute a recorded violation in this process
  ./check C20 --exec-plan FILE             (internal) run a plan, print result JSON
  ./check C20 --digests SEED N             (internal) deep-log digests of runs 0..N-1

VERIF_SEED selects the PRNG value (default below), VERIF_RUNS overrides the number of
simulated runs of the tier, VERIF_WORKERS the process count.
"""
import argparse
import importlib
import json
import os
import subprocess
import sys
import time

from . import env

DEFAULT_SEED = 20261002
ENGINES = {"C20": "sim.c20", "C15": "sim.c15"}
REPLAY_DIR = os.path.join(env.VERIF_DIR, "replays")
EVID_DIR = os.path.join(env.VERIF_DIR, "evidence")
CHECK = os.path.join(env.VERIF_DIR, "check")


def _seed():
    try:
        return int(os.environ.get("VERIF_SEED", DEFAULT_SEED))
    except ValueError:
        return DEFAULT_SEED


def _py():
    return sys.executable


def _subprocess_json(args, hashseed, timeout):
    e = dict(os.environ)
    e["PYTHONHASHSEED"] = str(hashseed)
    e["VERIF_REPO"] = env.REPO
    e["VERIF_PYTHON"] = _py()
    p = subprocess.run([CHECK] + args, env=e, capture_output=True, text=True,
                       timeout=timeout)
    if p.returncode not in (0,):
        raise RuntimeError("subprocess %r failed rc=%s\n%s\n%s" % (
            args, p.returncode, p.stdout[-2000:], p.stderr[-4000:]))
    line = [l for l in p.stdout.splitlines() if l.startswith("JSON ")][-1]
    return json.loads(line[5:])


# ------------------------------------------------------------------ internal commands
def cmd_exec_plan(prop, path):
    eng = importlib.import_module(ENGINES[prop])
    with open(path) as f:
        rec = json.load(f)
    plan = rec["plan"] if "plan" in rec else rec
    eng.worker_setup(eng.prepare_opts(rec.get("opts", {}) if isinstance(rec, dict) else {}))
    try:
        res = eng.run_plan(plan, deep=True)
    finally:
        eng.worker_teardown()
    out = {"violations": res["violations"], "digest": res["digest"],
           "classes": [list(eng.violation_class(v)) for v in res["violations"]]}
    print("JSON " + json.dumps(out, default=repr))
    return 0


def cmd_digests(prop, seed, n, opts):
    eng = importlib.import_module(ENGINES[prop])
    eng.worker_setup(eng.prepare_opts(opts))
    try:
        from . import runner
        runner._ENGINE = eng
        out = {}
        for run in range(n):
            plan, res = runner.make_and_run_hermetic(eng, seed, run, deep=True)
            out[str(run)] = res["digest"]
    finally:
        eng.worker_teardown()
    print("JSON " + json.dumps(out))
    return 0


def cmd_replay(prop, path):
    eng = importlib.import_module(ENGINES[prop])
    with open(path) as f:
        rec = json.load(f)
    if "job" in rec:
        differs, got, want = eng.replay_sweep(rec)
        if differs:
            print("reproduced: process-level history %s: %r expected=%r got=%r" % (
                rec["job"], rec.get("text"), want, got))
            print("VIOLATION property=%s replay=%s" % (prop, os.path.abspath(path)))
            return 1
        print("not reproduced on this tree")
        return 0
    eng.worker_setup(eng.prepare_opts(rec.get("opts", {})))
    try:
        res = eng.run_plan(rec["plan"], deep=True)
    finally:
        eng.worker_teardown()
    want = tuple(rec.get("class", ()))
    hits = [v for v in res["violations"] if tuple(eng.violation_class(v)) == want or not want]
    print("replay digest=%s recorded=%s %s" % (
        res["digest"], rec.get("digest"),
        "IDENTICAL" if res["digest"] == rec.get("digest") else "DIFFERENT"))
    if hits:
        print("reproduced: " + eng.describe_violation(hits[0]))
        kf = eng.is_known(hits[0], rec["plan"])
        if kf is not None:
            print("KNOWN-FINDING: property=%s %s" % (prop, kf["what"]))
            return 0
        print("VIOLATION property=%s replay=%s" % (prop, os.path.abspath(path)))
        return 1
    print("not reproduced on this tree (0 violations of class %s)" % (list(want),))
    return 0


# ------------------------------------------------------------------ tier run
def run_tier(prop, tier):
    from . import evidence, known, runner
    eng_name = ENGINES[prop]
    eng = importlib.import_module(eng_name)
    seed = _seed()
    t0 = time.time()
    cfg = eng.tier_config(tier)
    if os.environ.get("VERIF_RUNS"):
        cfg["runs"] = int(os.environ["VERIF_RUNS"])
    if os.environ.get("VERIF_DET_PLANS"):
        cfg["determinism_plans"] = int(os.environ["VERIF_DET_PLANS"])
    workers = int(os.environ.get("VERIF_WORKERS", min(16, os.cpu_count() or 1)))
    opts = eng.prepare_opts(cfg.get("opts", {}))
    print("VERIF_SEED=%d property=%s tier=%s runs=%d (+%d enumerated families) workers=%d "
          "repo=%s" % (seed, prop, tier, cfg["runs"], len(eng.systematic_jobs(seed, tier)),
                       workers, env.REPO))
    sys.stdout.flush()
    harness_errors = []
    report = {"determinism": {}, "sweep": {}}

    # --- A. determinism self-test: same plans, different processes, worker counts and
    # hash seeds must give identical deep event-log digests
    k = cfg["determinism_plans"]
    try:
        a = runner.run_batch(eng_name, opts, seed, range(k), workers=2, chunk=max(1, k // 2),
                             deep=True, max_viol_total=0, wall_limit_s=cfg["wall_limit_s"])
        b = runner.run_batch(eng_name, opts, seed, range(k), workers=min(5, workers),
                             chunk=max(1, k // 5), deep=True, max_viol_total=0,
                             wall_limit_s=cfg["wall_limit_s"])
        other = 0 if os.environ.get("PYTHONHASHSEED") != "0" else 4242
        c = _subprocess_json([prop, "--digests", str(seed), str(k), "--opts",
                              json.dumps(opts)], other, cfg["wall_limit_s"])
        da = {str(r): d for r, d in a["digests"].items()}
        db = {str(r): d for r, d in b["digests"].items()}
        bad = sorted(r for r in da if not (da[r] == db.get(r) == c.get(r)))
        report["determinism"] = {
            "plans": k, "executions": 3 * k, "mismatching_plans": bad,
            "configurations": ["2 workers", "%d workers" % min(5, workers),
                               "fresh interpreter PYTHONHASHSEED=%d" % other]}
        if bad or len(da) != k:
            harness_errors.append("determinism self-test failed for plans %s" % bad)
        harness_errors += [str(h) for h in a["harness_errors"] + b["harness_errors"]]
    except Exception as e:
        harness_errors.append("determinism self-test crashed: %r" % (e,))

    # --- B. seeded search
    res = None
    try:
        res = runner.run_batch(
            eng_name, opts, seed, range(cfg["runs"]), workers=workers, chunk=cfg["chunk"],
            want_plans=3, max_viol_total=cfg["max_violations"],
            min_budget=cfg["min_budget"], wall_limit_s=cfg["wall_limit_s"],
            systematic=eng.systematic_jobs(seed, tier),
            progress=lambda d, n, m: (print("progress: %d/%d jobs, %d runs, %d violating, %.0fs" % (
                d, n, m["runs"], m["violating_runs"], time.time() - t0)), sys.stdout.flush()))
        harness_errors += [str(h) for h in res["harness_errors"][:5]]
    except Exception as e:
        harness_errors.append("batch crashed: %r" % (e,))

    # --- C. process-level histories (hash seed x import order)
    sweep_viol = []
    try:
        sweep = eng.process_sweep(seed, tier, workers)
        report["sweep"] = sweep["report"]
        sweep_viol = sweep["violations"]
        harness_errors += sweep.get("harness_errors", [])
    except Exception as e:
        import traceback
        harness_errors.append("process sweep crashed: %r %s" % (e, traceback.format_exc()[-1500:]))

    # --- D. violations: fresh-process replay, known-finding match, report
    os.makedirs(REPLAY_DIR, exist_ok=True)
    violations_out = []
    known_out = []
    seen_known = set()
    def confirm(v):
        """Write the replay file and re-execute it in a fresh interpreter under another
        hash seed: class and event-log digest must reproduce exactly."""
        rec = {"property": prop, "seed": v["seed"], "run": v["run"], "class": v["class"],
               "violation": v["violation"], "plan": v["plan"], "digest": v["digest"],
               "original_plan": v["original_plan"], "opts": opts,
               "minimise_tries": v["minimise_tries"], "known_finding": v.get("known")}
        path = os.path.join(REPLAY_DIR, "%s-seed%d-run%s%s.json" % (
            prop, v["seed"], v["run"], "-known" if v.get("known") else ""))
        with open(path, "w") as f:
            json.dump(rec, f, indent=1, default=repr)
        try:
            other = 7 if os.environ.get("PYTHONHASHSEED") != "7" else 8
            rr = _subprocess_json([prop, "--exec-plan", path], other, 300)
            same_class = v["class"] in rr["classes"]
            same_digest = rr["digest"] == v["digest"]
        except Exception as e:
            same_class = same_digest = False
            harness_errors.append("replay of %s crashed: %r" % (path, e))
        if not (same_class and same_digest):
            harness_errors.append(
                "violation of run %s did not replay exactly in a fresh interpreter "
                "(class %s, digest %s): %s" % (v["run"], same_class, same_digest, path))
            return None
        return path

    for v in (res["violations"] if res else []):
        path = confirm(v)
        if path is not None:
            violations_out.append((v, path))
    kf_entries = {e["id"]: e for e in known.load().get("findings", [])}
    for kid in sorted(res["known"] if res else {}):
        v = res["known"][kid]
        path = confirm(v)
        if path is not None and kid not in seen_known:
            seen_known.add(kid)
            known_out.append((kf_entries[kid], path))
    for v in sweep_viol:
        path = os.path.join(REPLAY_DIR, "%s-sweep-seed%d-%s.json" % (prop, seed, v["name"]))
        with open(path, "w") as f:
            json.dump(v, f, indent=1, default=repr)
        kf = known.match(prop, v, v.get("plan"), eng.KNOWN_MATCHERS)
        if kf is not None:
            if kf["id"] not in seen_known:
                seen_known.add(kf["id"])
                known_out.append((kf, path))
            continue
        violations_out.append(({"violation": v, "run": v["name"]}, path))

    wall = time.time() - t0
    # --- E. evidence (always rewritten)
    try:
        evidence.write(prop, tier, seed, eng, cfg, res, report, violations_out, known_out,
                       harness_errors, wall, workers)
    except Exception as e:
        import traceback
        harness_errors.append("evidence writer crashed: %r %s" % (e, traceback.format_exc()[-1500:]))

    # --- F. reach: probes that must have fired
    if res is not None and not harness_errors:
        stuck = [p for p in eng.required_probes(tier, cfg) if not res["probes"].get(p)
                 and not res["faults"].get(p)]
        if stuck:
            harness_errors.append("reach probes stuck at zero: %s" % stuck)
        soft = [p for p in eng.expected_probes(tier, cfg) if not res["probes"].get(p)
                and not res["faults"].get(p)]
        for p in soft:
            print("WARNING reach probe at zero (depends on library behaviour): %s" % p)

    if res is not None:
        print("runs=%d (enumerated %d) events=%d distinct_schedules=%d violating_runs=%d "
              "wall=%.1fs" % (res["runs"], res["systematic_runs"], res["events"],
                              res["distinct_schedules"], res["violating_runs"], wall))
    for kf, path in known_out:
        print("KNOWN-FINDING: property=%s %s (replay=%s)" % (prop, kf["what"], path))
    for v, path in violations_out:
        vv = v["violation"]
        print("violation: " + (eng.describe_violation(vv) if "kind" in vv else repr(vv)[:600]))
        print("VIOLATION property=%s replay=%s" % (prop, path))
    if violations_out:
        return 1
    if harness_errors:
        for h in harness_errors:
            print("HARNESS-ERROR " + h.replace("\n", " | ")[:3000])
        return 2
    if res is not None and res["unknown_violating_runs"]:
        print("HARNESS-ERROR violating runs reported but none confirmed")
        return 2
    print("OK property=%s held on everything explored" % prop)
    return 0


def main(argv=None):
    ap = argparse.ArgumentParser()
    ap.add_argument("prop", choices=sorted(ENGINES))
    ap.add_argument("--tier", choices=["quick", "thorough"],
                    default=os.environ.get("VERIF_TIER", "quick"))
    ap.add_argument("--replay")
    ap.add_argument("--exec-plan")
    ap.add_argument("--digests", nargs=2)
    ap.add_argument("--opts", default="{}")
    ap.add_argument("--sweep-child", action="store_true")
    a = ap.parse_args(argv)
    env.setup_path()
    if a.sweep_child:
        eng = importlib.import_module(ENGINES[a.prop])
        job = json.loads(sys.stdin.read())
        print("JSON " + json.dumps(eng.sweep_child(job), default=repr))
        return 0
    if a.exec_plan:
        return cmd_exec_plan(a.prop, a.exec_plan)
    if a.digests:
        return cmd_digests(a.prop, int(a.digests[0]), int(a.digests[1]), json.loads(a.opts))
    if a.replay:
        return cmd_replay(a.prop, a.replay)
    try:
        return run_tier(a.prop, a.tier)
    except Exception as e:
        import traceback
        print("HARNESS-ERROR " + repr(e) + " | " + traceback.format_exc()[-3000:].replace("\n", " | "))
        return 2
