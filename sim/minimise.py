"""Greedy delta debugging over explicit plans (DESIGN.md 3).

``candidates(plan)`` yields smaller or simpler plans, biggest cuts first.  A candidate
is accepted iff executing it still shows a violation of the same class.  Bounded by a
number of re-executions, not by wall-clock, so minimisation itself is deterministic.
"""
import copy


def minimise(plan, still_fails, candidates, budget=400):
    cur = copy.deepcopy(plan)
    tries = 0
    progress = True
    while progress and tries < budget:
        progress = False
        for cand in candidates(cur):
            if tries >= budget:
                break
            tries += 1
            try:
                ok = still_fails(cand)
            except Exception:
                ok = False
            if ok:
                cur = cand
                progress = True
                break
    return cur, tries
