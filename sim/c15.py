"""C15 engine: shorthands conjoin the filter with the incoming query and leave the host
intact (DESIGN.md 6).

A simulated host application owns models, an engine with a compiled-statement cache of
random size, a pool of live query objects of five styles and SQLAlchemy's global function
registry, and performs a seeded history of operations on them: build, filter, join,
order, annotate, *apply the shorthand* (results re-enter the pool and are chained on),
apply a failing filter, re-run older queries, use its own ``sqlalchemy.func`` calls,
collect garbage.  Oracles: a Python reference database, an execution with the statement
cache disabled, compiled-SQL snapshots of every live query before and after every
shorthand call, and the same call chain evaluated in a pristine forked process.
"""
import gc
import json
import os
import random
import subprocess
import sys

from . import env
from .host import templates as T

LIBS = None
_W = {}

FUNC_NAMES = ["strpos", "substr", "lower", "upper", "ltrim", "rtrim", "ceil", "floor", "round",
              "char_length", "concat", "now", "coalesce", "max", "count"]

BAD_FILTERS = [
    {"kind": "syntax", "text": "rating gt"},
    {"kind": "syntax", "text": "(id eq 1"},
    {"kind": "token", "text": "id eq 1 # 2"},
    {"kind": "unknown-field", "text": "nosuchfield eq 1"},
    {"kind": "unknown-field-late", "text": "id ge 0 and nosuchfield eq 1"},
    {"kind": "unknown-function", "text": "frobnicate(id) eq 1"},
    {"kind": "unsupported-function", "text": "totalseconds(id) eq 1"},
    {"kind": "nav-then-unknown-field", "text": "@NAV@ and nosuchfield eq 1"},
    {"kind": "nav-unknown-attr", "text": "@REL@/nosuchfield eq 1"},
]


def init():
    global LIBS
    if LIBS is None:
        env.setup_path()
        from .host import app
        LIBS = app.Libs()
    return LIBS


# --------------------------------------------------------------------------- host funcs
_FUNC_SCRIPT = r'''
import json, sys, warnings
import sqlalchemy as sa
from sqlalchemy.dialects import sqlite
def snap(names):
    out = {}
    for n in names:
        with warnings.catch_warnings(record=True) as w:
            warnings.simplefilter("always")
            try:
                if n == "now":
                    f = getattr(sa.func, n)()
                elif n in ("concat", "strpos", "coalesce"):
                    f = getattr(sa.func, n)(sa.column("x"), "y")
                elif n == "substr":
                    f = getattr(sa.func, n)(sa.column("x"), 1, 2)
                else:
                    f = getattr(sa.func, n)(sa.column("x"))
                out[n] = [type(f).__module__ + "." + type(f).__qualname__, repr(f.type),
                          str(f.compile(dialect=sqlite.dialect())), [str(x.message) for x in w]]
            except Exception as e:
                out[n] = ["ERR", repr(e)]
    return out
'''


def func_snapshot(names):
    ns = {}
    exec(_FUNC_SCRIPT, ns)
    return ns["snap"](names)


def func_control():
    """sqlalchemy.func snapshots in an interpreter that never imports odata_query."""
    code = _FUNC_SCRIPT + "\nprint('JSON ' + json.dumps(snap(%r)))\n" % (FUNC_NAMES,)
    e = dict(os.environ)
    e.pop("PYTHONPATH", None)
    p = subprocess.run([sys.executable, "-c", code], capture_output=True, text=True,
                       timeout=120, env=e)
    line = [l for l in p.stdout.splitlines() if l.startswith("JSON ")]
    if p.returncode != 0 or not line:
        raise RuntimeError("HARNESS: func control failed: %s" % p.stderr[-1500:])
    return json.loads(line[-1][5:])


def _host_func_values(L, session, name, db):
    """Execute the host's own `select(func.<name>(column))` and give (got, expected)."""
    sa, sm = L.sa, L.sm
    A, P = sm.Author, sm.Post
    names = [r["name"] for r in db["Author"]]
    ratings = [r["rating"] for r in db["Post"]]
    spec = {
        "lower": (sa.func.lower(A.name), [n.lower() for n in names]),
        "upper": (sa.func.upper(A.name), [n.upper() for n in names]),
        "ltrim": (sa.func.ltrim(A.name), [n.lstrip(" ") for n in names]),
        "rtrim": (sa.func.rtrim(A.name), [n.rstrip(" ") for n in names]),
        "substr": (sa.func.substr(A.name, 1, 2), [n[:2] for n in names]),
        "char_length": (sa.func.char_length(A.name), [len(n) for n in names]),
        "round": (sa.func.round(P.rating), [float(x) for x in ratings]),
        "floor": (sa.func.floor(P.rating), [float(x) for x in ratings]),
        "ceil": (sa.func.ceil(P.rating), [float(x) for x in ratings]),
        "max": (sa.func.max(P.rating), [max(ratings)] if ratings else [None]),
        "count": (sa.func.count(P.id), [len(ratings)]),
        "coalesce": (sa.func.coalesce(P.author_id, -1),
                     [r["author_id"] if r["author_id"] is not None else -1 for r in db["Post"]]),
    }.get(name)
    if spec is None:
        return None
    expr, want = spec
    try:
        got = [r[0] for r in session.execute(sa.select(expr)).all()]
        if name in ("round", "floor", "ceil"):
            got = [float(x) for x in got]
    except Exception as e:
        return (["ERR " + type(e).__name__ + ": " + str(e)[:200]], sorted(want, key=repr))
    return (sorted(got, key=repr), sorted(want, key=repr))


# --------------------------------------------------------------------------- pristine oracle
def pristine_handler(req):
    """Runs in a pristine forked grandchild: build the chain, return its snapshot."""
    from .host import app
    kind, payload = req
    chain = json.loads(payload)
    b = app.Builder(LIBS)
    out = []
    try:
        first = chain[0]
        style, root = first["style"], first["root"]
        obj = b.new(style, root, first.get("owner_id"))
        for op in chain[1:]:
            obj = b.step(style, root, obj, op)
            if op["op"] == "apply":
                # the snapshot after every shorthand call: a chain's prefix is the same
                # computation as the shorter chain, so one request answers all of them
                out.append((op["i"], ("ok", b.snapshot(style, obj))))
        return out
    except Exception as e:
        out.append((op["i"], ("exc", type(e).__name__, str(e)[:300])))
        return out


# --------------------------------------------------------------------------- execution
MANAGER_STYLES = ("dj_manager", "dj_custom_manager", "dj_related_manager")

PROBES = [
    "apply_on_unfiltered", "apply_on_prefiltered", "apply_on_prejoined_used_rel",
    "apply_on_prejoined_other_rel", "apply_on_ordered", "apply_on_annotated",
    "apply_on_shorthand_result", "apply_on_manager", "apply_with_navigation",
    "apply_with_lambda", "apply_with_two_step_lambda_owner", "apply_with_many_to_many_lambda",
    "apply_with_function", "older_query_rerun_after_later_apply",
    "apply_after_apply_fail_same_base", "apply_fail_after_joins_recorded",
    "cache_hit", "cache_miss", "cache_eviction", "same_shape_different_literals",
    "style_sa_select", "style_sa_legacy", "style_sa_core", "style_dj_qs",
    "style_sa_select_aliased", "style_sa_core_cols", "join_form_joinedload", "join_form_core_join",
    "join_form_aliased_rel", "apply_navigates_other_rel_to_aliased_target", "op_distinct",
    "op_only", "style_dj_manager", "style_dj_custom_manager", "style_dj_related_manager", "join_form_rel", "join_form_outer_rel", "join_form_target_on",
    "join_form_target", "join_form_select_related", "host_func_used", "host_func_executed",
    "host_condition_across_to_many", "style_sa_legacy_aliased",
    "host_limit", "apply_refused_on_limited_base", "apply_accepted_on_limited_base",
    "style_sa_core_fromjoin",
    "gc_between_ops",
    "chain_depth_ge_3",
]
FAULTS = ["apply_fail_raised", "cache_eviction", "gc_pass", "cache_disabled_run",
          "tiny_cache_run"]


def _chain_of(pool, qid):
    return pool[qid].chain


def execute(plan, pristine, deep=False):
    from .host import app
    L = init()
    probes = {k: 0 for k in PROBES}
    faults = {k: 0 for k in FAULTS}
    violations = []
    log = []
    db = plan["data"]
    cache_size = plan["cache_size"]
    if cache_size == 0:
        faults["cache_disabled_run"] += 1
    elif cache_size <= 2:
        faults["tiny_cache_run"] += 1
    eng = L.new_sa_engine(cache_size)
    cache_stats = {"hit": 0, "miss": 0, "other": 0}

    def _after(conn, cursor, statement, parameters, context, executemany):
        ch = getattr(context, "cache_hit", None)
        name = getattr(ch, "name", str(ch))
        if conn.get_execution_options().get("compiled_cache", 1) is None:
            return
        if name == "CACHE_HIT":
            cache_stats["hit"] += 1
        elif name == "CACHE_MISS":
            cache_stats["miss"] += 1
        else:
            cache_stats["other"] += 1

    L.load_sa(eng, db)
    L.load_dj(db)
    L.event.listen(eng, "after_cursor_execute", _after)
    session = L.Session(eng)
    ref_conn = eng.connect().execution_options(compiled_cache=None)
    ref_session = L.Session(bind=ref_conn)
    b = app.Builder(L, session=session)
    b_ref = app.Builder(L, session=ref_session)
    pool = {}
    tainted = set()
    applied_after = {}       # qid -> number of applies that happened after its creation
    failed_on = set()        # base qids that saw an apply_fail
    handed_to_shorthand = set()   # qids of objects that were passed to a shorthand call
    shapes = {}              # template shape -> set of literal tuples (cache reuse probe)
    n_apply = 0
    applied = []             # (query, op, text, base joins, needed) per successful apply
    max_cache_len = 0
    evictions = 0

    def viol(kind, op, **kw):
        rec = {"kind": kind, "op": op.get("i"), "op_kind": op["op"]}
        rec.update(kw)
        violations.append(rec)
        log.append(("violation", kind, op.get("i")))

    def check_intact(q, op, when):
        try:
            s = b.snapshot(q.style, q.obj)
        except Exception as e:
            viol("host-snapshot-raised", op, query=q.qid, when=when, error=repr(e)[:300],
                 style=q.style)
            return
        if s != q.snap0:
            viol("host-mutated", op, query=q.qid, when=when, style=q.style,
                 expected=q.snap0, got=s)

    def add(qid, style, root, obj, preds, order, joins, annotated, chain, depth, parent):
        q = app.HostQuery(qid, style, root, obj, preds, order, joins, annotated, chain, depth,
                          parent)
        q.snap0 = b.snapshot(style, obj)
        q.have = set(pool[parent].have) if parent is not None else set()
        q.limit = pool[parent].limit if parent is not None else None
        q.distinct = pool[parent].distinct if parent is not None else False
        pool[qid] = q
        applied_after[qid] = 0
        return q

    try:
        for op in plan["ops"]:
            k = op["op"]
            i = op["i"]
            if k == "new":
                obj = b.new(op["style"], op["root"], op.get("owner_id"))
                preds0 = []
                if op["style"] == "dj_custom_manager":
                    preds0 = [{"kind": "host", "cond": {"f": "rating", "op": "ge", "v": 3}}]
                elif op["style"] == "dj_related_manager":
                    preds0 = [{"kind": "host", "cond": {"f": app.RELATED[op["root"]][2],
                                                        "op": "eq", "v": op["owner_id"]}}]
                add(i, op["style"], op["root"], obj, preds0, None, [], False, [op], 0, None)
                probes["style_" + op["style"]] += 1
                log.append(("new", i, op["style"], op["root"]))
                continue
            if k == "gc":
                faults["gc_pass"] += 1
                probes["gc_between_ops"] += 1
                gc.collect()
                log.append(("gc", i))
                continue
            if k == "host_func":
                probes["host_func_used"] += 1
                got = func_snapshot([op["name"]])[op["name"]]
                want = _W["func_control"].get(op["name"])
                log.append(("host_func", i, op["name"], got == want))
                if got != want:
                    viol("host-func-changed", op, name=op["name"], expected=want, got=got,
                         style="registry")
                # ... and what the host's own statement using that function returns, on the
                # same engine (and compiled-statement cache) the shorthand results run on
                hv = _host_func_values(L, session, op["name"], db)
                if hv is not None:
                    probes["host_func_executed"] += 1
                    gotv, wantv = hv
                    if gotv != wantv:
                        viol("host-func-wrong-values", op, name=op["name"], expected=wantv,
                             got=gotv, style="registry")
                continue
            base = pool.get(op["base"])
            if base is None or base.qid in tainted:
                log.append(("skip", i, k))
                continue
            style, root = base.style, base.root
            if k in ("where", "join", "order", "annotate", "distinct", "only", "limit",
                     "where_many"):
                obj = b.step(style, root, base.obj, op)
                preds, order, joins, ann = list(base.preds), base.order, list(base.joins), base.annotated
                if k == "where":
                    preds.append({"kind": "host", "cond": op["cond"]})
                elif k == "where_many":
                    preds.append({"kind": "many", "rel": op["rel"], "cond": op["cond"]})
                    probes["host_condition_across_to_many"] += 1
                elif k == "join":
                    joins.append(op["j"])
                    probes["join_form_" + op["j"]["form"]] += 1
                elif k == "order":
                    order = op["o"]
                elif k == "annotate":
                    ann = True
                elif k == "limit":
                    probes["host_limit"] += 1
                else:
                    probes["op_" + k] += 1
                nstyle = "dj_qs" if style in MANAGER_STYLES else style
                nq = add(i, nstyle, root, obj, preds, order, joins, ann, base.chain + [op],
                         base.depth, base.qid)
                if k == "join" and op["j"]["form"] not in ("joinedload", "core_join",
                                                           "aliased_rel"):
                    nq.have.add((op["j"]["owner"], op["j"]["rel"]))
                if k == "limit":
                    nq.limit = (op["n"], op.get("offset", 0))
                if k == "distinct":
                    nq.distinct = True
                check_intact(base, op, "after-host-op")
                log.append((k, i, base.qid))
                continue
            if k in ("apply_fail", "apply"):
                handed_to_shorthand.add(base.qid)
            if k == "apply_fail":
                text = op["bad"]["text"]
                raised = None
                try:
                    b.apply(style, base.obj, text)
                except Exception as e:
                    raised = type(e).__name__
                if raised:
                    faults["apply_fail_raised"] += 1
                    if op["bad"]["kind"].startswith("nav-"):
                        probes["apply_fail_after_joins_recorded"] += 1
                failed_on.add(base.qid)
                check_intact(base, op, "after-apply-fail")
                log.append(("apply_fail", i, base.qid, raised))
                continue
            if k == "apply":
                t = op["t"]
                text = T.render(t)
                n_apply += 1
                # --- reach probes
                if not base.preds and not base.joins and not base.order and not base.annotated:
                    probes["apply_on_unfiltered"] += 1
                if any(p["kind"] == "host" for p in base.preds):
                    probes["apply_on_prefiltered"] += 1
                need = T.needed_rels(t, root)
                have = set(base.have)
                if base.joins:
                    if any(n in have for n in need):
                        probes["apply_on_prejoined_used_rel"] += 1
                    else:
                        probes["apply_on_prejoined_other_rel"] += 1
                if base.order:
                    probes["apply_on_ordered"] += 1
                if base.annotated:
                    probes["apply_on_annotated"] += 1
                if base.depth >= 1:
                    probes["apply_on_shorthand_result"] += 1
                if base.depth >= 2:
                    probes["chain_depth_ge_3"] += 1
                if style in MANAGER_STYLES:
                    probes["apply_on_manager"] += 1
                if need:
                    probes["apply_with_navigation"] += 1
                    for j in base.joins:
                        if j["form"] == "aliased_rel" and any(
                                T.TO_ONE[o][r][1] == T.TO_ONE[j["owner"]][j["rel"]][1]
                                for o, r in need):
                            probes["apply_navigates_other_rel_to_aliased_target"] += 1
                if T.uses(t, "coll") or T.uses(t, "coll2") or T.uses(t, "m2m"):
                    probes["apply_with_lambda"] += 1
                if T.uses(t, "coll2"):
                    probes["apply_with_two_step_lambda_owner"] += 1
                if T.uses(t, "m2m"):
                    probes["apply_with_many_to_many_lambda"] += 1
                if T.uses(t, "fn"):
                    probes["apply_with_function"] += 1
                if base.qid in failed_on:
                    probes["apply_after_apply_fail_same_base"] += 1
                shape, lits = T.shape_of(t)
                if shape in shapes and lits not in shapes[shape]:
                    probes["same_shape_different_literals"] += 1
                shapes.setdefault(shape, set()).add(lits)
                for q in applied_after:
                    applied_after[q] += 1
                check_intact(base, op, "before-apply")
                try:
                    obj = b.apply(style, base.obj, text)
                except Exception as e:
                    if base.limit is not None:
                        # a sliced base: refusing (as legacy Query and Django do) is not a
                        # wrong result; the base must still be intact
                        probes["apply_refused_on_limited_base"] += 1
                        check_intact(base, op, "after-refused-apply")
                        log.append(("apply-refused", i, base.qid, type(e).__name__))
                        continue
                    viol("apply-raised", op, text=text, style=style, error=repr(e)[:300],
                         base_joins=base.joins, needed=need)
                    log.append(("apply-raised", i, base.qid))
                    continue
                if base.limit is not None:
                    probes["apply_accepted_on_limited_base"] += 1
                check_intact(base, op, "after-apply")
                nstyle = "dj_qs" if style in MANAGER_STYLES else style
                q = add(i, nstyle, root, obj,
                        base.preds + [{"kind": "odata", "t": t,
                                       "after_limit": base.limit is not None}],
                        base.order, base.joins, base.annotated, base.chain + [op],
                        base.depth + 1, base.qid)
                q.have.update(need)
                if type(obj) is not type(pool[op["base"]].obj) and style not in MANAGER_STYLES:
                    viol("result-type-changed", op, style=style, text=text,
                         expected=type(base.obj).__name__, got=type(obj).__name__)
                # --- joins: not twice, every needed one added
                sql = b.sql_text(q.snap0)
                base_sql = b.sql_text(base.snap0)
                if not app.is_dj(style) and style not in app.CORE_STYLES:
                    for table in sorted({T.TABLE[T.TO_ONE[o][r][1]] for o, r in need}
                                        | {"author", "post", "comment"}):
                        before = app.count_joins(base_sql, table)
                        new = [(o, r) for o, r in need if T.TABLE[T.TO_ONE[o][r][1]] == table
                               and (o, r) not in have]
                        want = before + len(new)
                        got = app.count_joins(sql, table)
                        # one-sided: "not joined twice".  A missing join is judged by
                        # what it does to the rows (run ops), not by the SQL's shape.
                        if got > want:
                            viol("join-count", op, style=style, text=text, table=table,
                                 expected=want, got=got, base_joins=base.joins,
                                 needed=[list(n) for n in need], sql=sql)
                            tainted.add(q.qid)
                            break
                elif app.is_dj(style):
                    paths = set()
                    for j in base.joins:
                        parts = j["path"].split("__")
                        for n in range(1, len(parts) + 1):
                            paths.add(tuple(parts[:n]))
                    for p in base.preds + [{"kind": "odata", "t": t}]:
                        if p["kind"] == "odata":
                            for pth in T.nav_paths(p["t"]):
                                for n in range(1, len(pth) + 1):
                                    paths.add(tuple(pth[:n]))
                    for table in ("author", "post", "comment"):
                        want = sum(1 for pth in paths if T.path_table(root, pth) == table)
                        # each host filter() across a to-many relation has its own join
                        want += sum(1 for p in base.preds if p["kind"] == "many"
                                    and T.TABLE[T.TO_MANY[root][p["rel"]][0]] == table)
                        got = app.count_joins(sql, table)
                        if got > want:
                            viol("join-count", op, style=style, text=text, table=table,
                                 expected=want, got=got, base_joins=base.joins, sql=sql,
                                 needed=[list(n) for n in need])
                            tainted.add(q.qid)
                            break
                # history independence is checked at the end of the history, see below
                applied.append((q, op, text, base.joins, [list(n) for n in need]))
                log.append(("apply", i, base.qid, text))
                continue
            if k == "run":
                q = base
                if applied_after.get(q.qid, 0) > 0:
                    probes["older_query_rerun_after_later_apply"] += 1
                want_rows = app.model_rows(q, db)
                want = [r["id"] for r in want_rows]
                last_apply = next((o for o in reversed(q.chain) if o["op"] == "apply"), None)
                late = q.limit is not None and any(p.get("after_limit") for p in q.preds)
                ctx = {"style": q.style, "query": q.qid, "chain_len": len(q.chain),
                       "limited_base": late,
                       "filter_then_limit": ([r["id"] for r in app.model_rows(q, db, True)]
                                             if late else None),
                       "base_joins": q.joins,
                       "needed": [list(n) for n in T.needed_rels(last_apply["t"], q.root)] if last_apply else [],
                       "text": T.render(last_apply["t"]) if last_apply else None}
                try:
                    got, extra = b.run(q.style, q.obj, session, q.annotated)
                    lc = len(eng._compiled_cache) if eng._compiled_cache is not None else 0
                    if lc < max_cache_len:
                        evictions += 1
                    max_cache_len = max(max_cache_len, lc)
                except Exception as e:
                    viol("execution-error", op, error=(type(e).__name__ + ": " + str(e))[:300],
                         **ctx)
                    tainted.add(q.qid)
                    try:
                        session.rollback()
                    except Exception:
                        pass
                    log.append(("run-error", i, q.qid))
                    continue
                ok = (got == want) if q.order else (sorted(got) == sorted(want))
                anc, handed = q, False
                while anc is not None:
                    if anc.qid in handed_to_shorthand:
                        handed = True
                        break
                    anc = pool.get(anc.parent) if anc.parent is not None else None
                if not ok and last_apply is None and not handed:
                    # no shorthand call anywhere in this query's chain, and none of the
                    # objects it was derived from was ever handed to a shorthand: the
                    # reference model and the host disagree about the host's own query -
                    # a defect of the machinery, never of the library
                    raise RuntimeError("HARNESS: host model mismatch without any shorthand "
                                       "call: %r expected %r got %r" % (q.chain, want, got))
                if not ok:
                    viol("wrong-rows", op, expected=want, got=got, ordered=bool(q.order), **ctx)
                if extra is not None:
                    exp_extra = {r["id"]: r["rating"] + 1 for r in db[q.root]} if q.root == "Post" else {}
                    bad = [(pk, e) for pk, e in zip(got, extra) if exp_extra.get(pk) != e]
                    if bad:
                        viol("annotation-lost", op, expected="rating+1", got=bad[:3], **ctx)
                if not app.is_dj(q.style):
                    # cache independence: the same live object executed with the compiled
                    # cache disabled
                    try:
                        obj2 = q.obj
                        if q.style in app.LEGACY_STYLES:
                            obj2 = q.obj.with_session(ref_session)
                        got2, _ = b_ref.run(q.style, obj2, ref_session)
                        if (got2 != got) if q.order else (sorted(got2) != sorted(got)):
                            viol("cache-dependent-rows", op, expected=got2, got=got,
                                 cache_size=cache_size, **ctx)
                    except Exception as e:
                        viol("execution-error", op, error="uncached: " + repr(e)[:300], **ctx)
                log.append(("run", i, q.qid, tuple(got)))
                continue
            raise ValueError(k)
        # --- history independence: every shorthand result equals the result of the same
        # call chain built in a pristine process (no other calls before or in between)
        chains = [json.dumps(q.chain, sort_keys=True) for q, _, _, _, _ in applied]
        maximal = [c for c in sorted(set(chains))
                   if not any(o != c and o.startswith(c[:-1] + ",") for o in chains)]
        answers = {}
        for c, ans in zip(maximal, pristine.ask_many([("chain", c) for c in maximal])):
            for opi, snap in ans:
                answers.setdefault((c, opi), snap)
        for (q, op, text, bjoins, need), c in zip(applied, chains):
            if q.qid in tainted:
                continue
            ref = None
            for m in maximal:
                if m == c or m.startswith(c[:-1] + ","):
                    ref = answers.get((m, op["i"]))
                    break
            if ref is None or ref[0] != "ok" or _norm(ref[1]) != _norm(q.snap0):
                viol("history-dependent-result", op, style=q.style, text=text,
                     expected=ref, got=q.snap0, base_joins=bjoins, needed=need)
                tainted.add(q.qid)
        # --- end of history: every live query still means what it meant when it was built
        end_op = {"i": "end", "op": "end"}
        for qid in sorted(pool, key=str):
            if qid not in tainted:
                check_intact(pool[qid], end_op, "end-of-history")
    finally:
        try:
            session.close()
            ref_session.close()
            ref_conn.close()
            eng.dispose()
        except Exception:
            pass
        pool.clear()
        gc.collect()
    probes["cache_hit"] = cache_stats["hit"]
    probes["cache_miss"] = cache_stats["miss"]
    probes["cache_eviction"] = evictions
    faults["cache_eviction"] = evictions
    import hashlib
    h = hashlib.sha256()
    for rec in log:
        h.update(repr(rec).encode() + b"\n")
    sig = repr([(r[0],) + tuple(r[2:4]) for r in log if r[0] in
                ("new", "apply", "apply_fail", "where", "join", "order", "annotate", "run", "gc")])
    return {
        "violations": violations, "digest": h.hexdigest(), "events": len(plan["ops"]),
        "n_ops": len(plan["ops"]), "stats": {"applies": n_apply}, "probes": probes,
        "faults": faults, "schedule_sig": sig, "where": [], "leftover_streams": 0,
        "nontrivial": n_apply >= 1, "log": log if deep else None,
        "faulty": bool(faults["apply_fail_raised"] or faults["gc_pass"] or cache_size <= 2),
    }


def _norm(s):
    return json.loads(json.dumps(s))


# --------------------------------------------------------------------------- plans
def _gen_cond(rng, root):
    fields = T.SCALARS[root]
    f = rng.choice(sorted(fields))
    if fields[f] == "str":
        return {"f": f, "op": rng.choice(["eq", "ne", "ge"]), "v": rng.choice(T.STR_VALUES[f])}
    return {"f": f, "op": rng.choice(sorted(T.OPS)), "v": rng.randint(0, 6)}


class _G:
    """Generator-side mirror of a pool entry."""

    def __init__(self, i, style, root, depth=0, joins=(), order=False, annotated=False,
                 paths=(), applied=0):
        self.i, self.style, self.root, self.depth = i, style, root, depth
        self.joins, self.order, self.annotated = list(joins), order, annotated
        self.paths = set(paths)   # to-one paths (tuples) already navigated or joined
        self.applied = applied
        self.aliased = set()      # root-level relationships joined through a host alias
        self.limited = False      # the host sliced the query: only apply / run from here

    def derive(self, i, **kw):
        g = _G(i, "dj_qs" if self.style in MANAGER_STYLES else self.style, self.root,
               self.depth, self.joins, self.order, self.annotated, self.paths, self.applied)
        g.aliased = set(self.aliased)
        g.limited = self.limited
        g.distinct = getattr(self, "distinct", False)
        for k, v in kw.items():
            setattr(g, k, v)
        return g


def _path_ok(root, paths, new_paths):
    """At most one path per target table (the library does not alias joins; two paths to
    one table is an input-level limitation outside this property)."""
    allp = set(paths) | set(new_paths)
    seen = {}
    for p in allp:
        t = T.path_table(root, p)
        if t in seen and seen[t] != p:
            return False
        seen[t] = p
    return True


def gen_plan(seed, run, finding_shapes=True):
    rng = random.Random(seed * 1000003 + run)
    plan = {"property": "C15", "seed": seed, "run": run,
            "cache_size": rng.choice([0, 1, 2, 2, 500, 500]), "data": T.gen_data(rng), "ops": []}
    ops = plan["ops"]
    gs = []
    n_ops = rng.randint(5, 14)
    # a history works on one or two backends
    styles = rng.sample(["sa_select", "sa_select_aliased", "sa_legacy", "sa_legacy_aliased",
                         "sa_core", "sa_core_cols",
                         "sa_core_fromjoin", "dj_qs",
                         "dj_manager", "dj_custom_manager", "dj_related_manager"],
                        rng.choice([1, 1, 2]))
    ctr = [0]

    def nid():
        ctr[0] += 1
        return ctr[0]

    def new():
        style = rng.choice(styles)
        root = rng.choice(["Post", "Comment", "Author", "Post", "Comment", "Author"])
        i = nid()
        op = {"i": i, "op": "new", "style": style, "root": root}
        if style == "dj_custom_manager":
            op["root"] = root = "Post"
        elif style == "dj_related_manager":
            if root == "Author":
                op["root"] = root = "Post"
            owner = {"Post": "Author", "Comment": "Post"}[root]
            op["owner_id"] = rng.choice(plan["data"][owner])["id"]
        elif style == "sa_core_fromjoin":
            op["root"] = root = "Author"
        ops.append(op)
        g = _G(i, style, root)
        gs.append(g)
        return g

    new()
    last_template = None
    while len(ops) < n_ops:
        r = rng.random()
        if r < 0.08 or not gs:
            new()
            continue
        # prefer recent queries but keep older ones in play
        g = gs[-1] if rng.random() < 0.5 else rng.choice(gs)
        dj = g.style.startswith("dj")
        core = g.style in ("sa_core", "sa_core_cols", "sa_core_fromjoin")
        if g.limited and r < 0.42:
            r = 0.5       # a sliced query: apply, apply_fail or run only
        if g.order and not g.limited and rng.random() < 0.12:
            i = nid()
            ops.append({"i": i, "op": "limit", "base": g.i, "n": rng.randint(1, 3),
                        "offset": rng.choice([0, 0, 1])})
            gs.append(g.derive(i, limited=True))
            continue
        if r < 0.18 and dj and g.root == "Post" and not g.limited and rng.random() < 0.35:
            i = nid()
            ops.append({"i": i, "op": "where_many", "base": g.i, "rel": "comments",
                        "cond": {"f": rng.choice(["id", "post_id"]), "op": rng.choice(["ge", "le", "gt"]),
                                 "v": rng.randint(0, 5)}})
            gs.append(g.derive(i))
        elif r < 0.18:
            i = nid()
            ops.append({"i": i, "op": "where", "base": g.i, "cond": _gen_cond(rng, g.root)})
            gs.append(g.derive(i))
        elif r < 0.30 and core and g.style != "sa_core_fromjoin" and T.TO_ONE[g.root] and not g.joins:
            rel = rng.choice(sorted(T.TO_ONE[g.root]))
            i = nid()
            j = {"owner": g.root, "rel": rel, "via": [], "form": "core_join"}
            ops.append({"i": i, "op": "join", "base": g.i, "j": j})
            gs.append(g.derive(i, joins=g.joins + [j]))
        elif r < 0.30 and not core and T.TO_ONE[g.root]:
            # join on a to-one relationship
            real = [j for j in g.joins if j["form"] in ("rel", "outer_rel", "target_on", "target")]
            if real and rng.random() < 0.3 and not dj:
                # second level: from an already joined target
                j0 = rng.choice(real)
                owner = T.TO_ONE[j0["owner"]][j0["rel"]][1]
                via = j0["via"] + [j0["rel"]]
            else:
                owner, via = g.root, []
            rels = sorted(T.TO_ONE[owner])
            if not rels:
                continue
            rel = rng.choice(rels)
            path = tuple(via + [rel])
            if not via and rel in g.aliased:
                continue
            if path in g.paths or not _path_ok(g.root, g.paths, [path]):
                continue
            i = nid()
            if dj:
                j = {"owner": owner, "rel": rel, "via": via, "form": "select_related",
                     "path": "__".join(path)}
            else:
                forms = ["rel", "rel", "outer_rel", "target_on", "target", "joinedload",
                         "aliased_rel"]
                form = rng.choice(forms)
                if form == "target" and owner == "Comment" and rel != "post":
                    form = "target_on"    # two foreign keys to author: join(Author) is ambiguous
                if form == "aliased_rel":
                    if via or rel in g.aliased:
                        form = "rel"
                    else:
                        i = nid()
                        j = {"owner": owner, "rel": rel, "via": via, "form": form}
                        ops.append({"i": i, "op": "join", "base": g.i, "j": j})
                        ng = g.derive(i, joins=g.joins + [j])
                        ng.aliased.add(rel)
                        gs.append(ng)
                        continue
                if form == "joinedload":
                    if via:
                        form = "rel"
                    else:
                        i = nid()
                        j = {"owner": owner, "rel": rel, "via": via, "form": form}
                        ops.append({"i": i, "op": "join", "base": g.i, "j": j})
                        gs.append(g.derive(i, joins=g.joins + [j]))
                        continue
                if form in ("target_on", "target") and T.TABLE[T.TO_ONE[owner][rel][1]] != rel \
                        and not finding_shapes:
                    form = "rel"
                if form == "target" and (via or g.paths or g.joins):
                    # join(Target) lets SQLAlchemy infer the ON clause from the most
                    # recently joined entity; only unambiguous on a query without joins
                    form = "target_on"
                j = {"owner": owner, "rel": rel, "via": via, "form": form}
            ops.append({"i": i, "op": "join", "base": g.i, "j": j})
            gs.append(g.derive(i, joins=g.joins + [j], paths=g.paths | {path}))
        elif r < 0.32 and not getattr(g, "distinct", False) and not g.annotated \
                and g.style != "sa_core_fromjoin":
            i = nid()
            if dj and rng.random() < 0.5:
                fld = sorted(f for f in T.SCALARS[g.root] if f != "id")[0]
                ops.append({"i": i, "op": "only", "base": g.i,
                            "mode": "defer", "field": fld})
                gs.append(g.derive(i))
            else:
                ops.append({"i": i, "op": "distinct", "base": g.i})
                ng = g.derive(i)
                ng.distinct = True
                gs.append(ng)
        elif r < 0.37 and not g.order:
            i = nid()
            f = rng.choice(sorted(T.SCALARS[g.root]))
            ops.append({"i": i, "op": "order", "base": g.i,
                        "o": {"f": f, "dir": rng.choice(["asc", "desc"])}})
            gs.append(g.derive(i, order=True))
        elif r < 0.42 and dj and g.root == "Post" and not g.annotated:
            i = nid()
            ops.append({"i": i, "op": "annotate", "base": g.i})
            gs.append(g.derive(i, annotated=True))
        elif r < 0.72:
            # apply a filter; sometimes the previous template again with other literals
            t = None
            if last_template and rng.random() < 0.15:
                # the identical filter text again, on another base query of the same
                # model: what a per-(model, text) cache inside the library needs
                same = [x for x in gs if x.root == last_template[0] and x.i != last_template[2].i
                        and x.style.startswith("dj") == last_template[2].style.startswith("dj")
                        and (x.style in ("sa_core", "sa_core_cols", "sa_core_fromjoin")) ==
                        (last_template[2].style in ("sa_core", "sa_core_cols", "sa_core_fromjoin"))]
                cand = last_template[1]
                same = [x for x in same
                        if not any(pth[0] in x.aliased for pth in T.nav_paths(cand))]
                if T.uses(cand, "m2m") or T.uses(cand, "coll2"):
                    same = [x for x in same if x.style.startswith("dj")]
                if same and (not T.uses(cand, "ann")):
                    g2 = rng.choice(same)
                    newp = set()
                    for pth in T.nav_paths(cand):
                        for n in range(1, len(pth) + 1):
                            newp.add(tuple(pth[:n]))
                    if _path_ok(g2.root, g2.paths, newp):
                        i = nid()
                        ops.append({"i": i, "op": "apply", "base": g2.i, "t": cand})
                        gs.append(g2.derive(i, depth=g2.depth + 1, paths=g2.paths | newp,
                                            applied=g2.applied + 1))
                        continue
            if last_template and rng.random() < 0.3:
                # the same statement shape again with other literal values - on the very
                # same base query, so that the compiled-statement cache can hit
                g = last_template[2]
                dj = g.style.startswith("dj")
                core = g.style in ("sa_core", "sa_core_cols", "sa_core_fromjoin")
            if last_template and last_template[0] == g.root and rng.random() < 0.6 and \
                    (not core or not T.needed_rels(last_template[1], g.root)):
                t = T.vary_literals(rng, last_template[1])
                if T.uses(t, "ann") and not g.annotated:
                    t = None
                if t and dj and T.uses_all(t):
                    t = None
                if t and T.uses(t, "coll") and core:
                    t = None
                if t and (T.uses(t, "coll2") or T.uses(t, "m2m")) and not dj:
                    t = None
                if t and any(pth[0] in g.aliased for pth in T.nav_paths(t)):
                    t = None
            for _ in range(6):
                if t is not None:
                    break
                cand = T.gen_template(rng, g.root, allow_nav=not core, allow_coll=not core,
                                      want_nav=bool(g.joins) and rng.random() < 0.6,
                                      annotated=g.annotated and dj, allow_all=not dj,
                                      allow_fn=True, allow_coll2=dj)
                if _path_ok(g.root, g.paths, T.nav_paths(cand)) and \
                        not any(pth[0] in g.aliased for pth in T.nav_paths(cand)):
                    t = cand
            if t is None:
                t = T.gen_scalar(rng, g.root)
            newp = set()
            for pth in T.nav_paths(t):
                for n in range(1, len(pth) + 1):
                    newp.add(tuple(pth[:n]))
            if not _path_ok(g.root, g.paths, newp):
                t = T.gen_scalar(rng, g.root)
                newp = set()
            i = nid()
            ops.append({"i": i, "op": "apply", "base": g.i, "t": t})
            gs.append(g.derive(i, depth=g.depth + 1, paths=g.paths | newp, applied=g.applied + 1))
            last_template = (g.root, t, g)
        elif r < 0.80:
            bad = dict(rng.choice(BAD_FILTERS))
            rels = sorted(T.TO_ONE[g.root])
            if "@NAV@" in bad["text"] or "@REL@" in bad["text"]:
                if not rels or core:
                    bad = dict(BAD_FILTERS[0])
                else:
                    rel = rng.choice(rels)
                    tgt = T.TO_ONE[g.root][rel][1]
                    f = sorted(T.SCALARS[tgt])[0]
                    bad["text"] = bad["text"].replace("@NAV@", "%s/%s ge 0" % (rel, f)) \
                                             .replace("@REL@", rel)
            ops.append({"i": nid(), "op": "apply_fail", "base": g.i, "bad": bad})
        elif r < 0.94:
            # run: bias towards older queries that later applies were chained on
            cands = [x for x in gs if x.applied] or gs
            q = rng.choice(gs if rng.random() < 0.4 else cands)
            ops.append({"i": nid(), "op": "run", "base": q.i})
        elif r < 0.985:
            ops.append({"i": nid(), "op": "host_func", "name": rng.choice(FUNC_NAMES)})
        else:
            ops.append({"i": nid(), "op": "gc"})
    # every history ends by running everything that was ever built (older queries after
    # later applies included)
    for g in gs:
        if rng.random() < 0.75:
            ops.append({"i": nid(), "op": "run", "base": g.i})
    return plan


# --------------------------------------------------------------------------- minimiser
def violation_class(v):
    return (v["kind"], v.get("style") or v.get("op_kind"))


def _dependents(plan, i):
    """Ops that (transitively) build on the query created by op i."""
    gone = {i}
    changed = True
    while changed:
        changed = False
        for op in plan["ops"]:
            if op.get("base") in gone and op["i"] not in gone and op["op"] not in ("run", "apply_fail"):
                gone.add(op["i"])
                changed = True
    return gone


def shrink_candidates(plan):
    import copy
    ops = plan["ops"]
    # 1. drop an op together with everything built on it
    for op in reversed(ops):
        gone = _dependents(plan, op["i"])
        p = copy.deepcopy(plan)
        p["ops"] = [o for o in p["ops"] if o["i"] not in gone and o.get("base") not in gone]
        if len(p["ops"]) < len(ops) and p["ops"]:
            yield p
    # 2. splice out a middle op (where/join/order/annotate/apply): children re-based
    for op in ops:
        if op["op"] in ("where", "join", "order", "annotate", "apply", "distinct", "only",
                        "limit", "where_many"):
            p = copy.deepcopy(plan)
            p["ops"] = [o for o in p["ops"] if o["i"] != op["i"]]
            for o in p["ops"]:
                if o.get("base") == op["i"]:
                    o["base"] = op["base"]
            yield p
    # 3. smaller database
    for model in ("Comment", "Post", "Author"):
        rows = plan["data"][model]
        for k in range(len(rows) - 1, -1, -1):
            p = copy.deepcopy(plan)
            rid = rows[k]["id"]
            del p["data"][model][k]
            if model == "Author":
                for r in p["data"]["Post"]:
                    if r["author_id"] == rid:
                        r["author_id"] = None
                for r in p["data"]["Comment"]:
                    if r["writer_id"] == rid:
                        r["writer_id"] = None
            if model == "Post":
                if any(r["post_id"] == rid for r in p["data"]["Comment"]):
                    continue
            yield p
    # 4. knobs
    if plan["cache_size"] != 500:
        p = copy.deepcopy(plan)
        p["cache_size"] = 500
        yield p
    # 5. simpler templates: replace a compound template by one of its parts
    for idx, op in enumerate(ops):
        if op["op"] == "apply":
            t = op["t"]
            for c in ("a", "b"):
                if isinstance(t.get(c), dict) and t["k"] in ("and", "or"):
                    p = copy.deepcopy(plan)
                    p["ops"][idx]["t"] = t[c]
                    yield p


# --------------------------------------------------------------------------- known findings
def _m_double_join(entry, v, plan):
    """6.7: a base query that already joins the related entity *by target* along a
    relationship whose key differs from the related table's name is joined again."""
    if v.get("style") not in ("sa_select", "sa_select_aliased", "sa_legacy",
                              "sa_legacy_aliased"):
        return False
    if v["kind"] == "join-count":
        if v.get("got", 0) <= v.get("expected", 0):
            return False
    elif v["kind"] == "execution-error":
        if "ambiguous column name" not in v.get("error", ""):
            return False
    else:
        return False
    need = {tuple(n) for n in v.get("needed", [])}
    for j in v.get("base_joins", []):
        tgt_table = T.TABLE[T.TO_ONE[j["owner"]][j["rel"]][1]]
        if j["form"] in ("target_on", "target") and j["rel"] != tgt_table \
                and (j["owner"], j["rel"]) in need:
            return True
    return False


def _m_select_limit(entry, v, plan):
    """A 2.0-style select (ORM or Core) that already carries LIMIT/OFFSET: the shorthand's
    WHERE goes underneath the limit, so rows outside the base's page come back."""
    if v.get("kind") != "wrong-rows" or not v.get("limited_base"):
        return False
    if v.get("style") not in ("sa_select", "sa_select_aliased", "sa_core", "sa_core_cols",
                              "sa_core_fromjoin"):
        return False
    ftl = v.get("filter_then_limit")
    got = v.get("got")
    if ftl is None or got is None:
        return False
    return (got == ftl) if v.get("ordered") else (sorted(got) == sorted(ftl))


KNOWN_MATCHERS = {"sa-double-join-by-target": _m_double_join,
                  "sa-select-limit-filter-under-limit": _m_select_limit}


def is_known(v, plan):
    from . import known
    return known.match("C15", v, plan, KNOWN_MATCHERS)


def describe_violation(v):
    keys = ("kind", "op", "style", "text", "table", "expected", "got", "error", "base_joins",
            "when", "query", "name")
    return " ".join("%s=%r" % (k, v[k]) for k in keys if k in v)[:1500]


def plan_is_faulty(plan):
    return any(o["op"] in ("apply_fail", "gc") for o in plan["ops"]) or plan["cache_size"] <= 2


# --------------------------------------------------------------------------- engine API
def prepare_opts(opts):
    if "func_control" not in opts:
        opts["func_control"] = func_control()
    return opts


def worker_setup(opts):
    from . import pristine
    init()
    prepare_opts(opts)
    _W["func_control"] = opts["func_control"]
    _W["opts"] = opts
    _W["pristine"] = pristine.Pristine(pristine_handler)
    gc.collect()
    gc.freeze()
    gc.disable()


def worker_teardown():
    pr = _W.pop("pristine", None)
    if pr is not None:
        pr.close()


def get_pristine():
    return _W["pristine"]


def make_plan(seed, run, opts=None):
    return gen_plan(seed, run)


def run_plan(plan, deep=False):
    pr = _W["pristine"]
    if len(pr.cache) > 50000:
        pr.cache.clear()
    return execute(plan, pr, deep=deep)


def tier_config(tier):
    if tier == "thorough":
        return {"runs": 200000, "chunk": 100, "determinism_plans": 60, "max_violations": 6,
                "min_budget": 400, "wall_limit_s": 6 * 3600, "sweep_hashseeds": 8,
                "sweep_scripts": 24, "opts": {}}
    return {"runs": 4000, "chunk": 25, "determinism_plans": 20, "max_violations": 4,
            "min_budget": 300, "wall_limit_s": 1500, "sweep_hashseeds": 2,
            "sweep_scripts": 8, "opts": {}}


_LIBRARY_DEPENDENT = ("cache_eviction", "cache_hit", "cache_miss", "host_func_executed",
                      "apply_refused_on_limited_base", "apply_accepted_on_limited_base",
                      "apply_fail_after_joins_recorded")


def required_probes(tier, cfg):
    """Workload-only probes: stuck at zero means the machinery is broken (exit 2)."""
    need = [p for p in PROBES if p not in _LIBRARY_DEPENDENT]
    need += ["gc_pass", "cache_disabled_run", "tiny_cache_run"]
    return need


def expected_probes(tier, cfg):
    """Probes that also depend on how the library / SQLAlchemy react; zero is reported."""
    return [p for p in _LIBRARY_DEPENDENT if p not in ("cache_eviction",
                                                       "apply_refused_on_limited_base",
                                                       "apply_accepted_on_limited_base")] + \
        ["apply_fail_raised"]


# --------------------------------------------------------------------------- process sweep
A_FILTERS = ["tolower(name) eq 'ann'", "toupper(name) eq 'ANN'", "trim(name) eq 'ann'",
             "indexof(name, 'n') eq 1", "substring(name, 1) eq 'nn'", "floor(id) eq 1",
             "ceiling(id) eq 1", "round(id) eq 1", "length(name) eq 3",
             "concat(name, 'x') eq 'annx'"]


def _host_exec_snapshot():
    """The host's own func calls executed on its own in-memory database."""
    import sqlalchemy as sa
    eng = sa.create_engine("sqlite://")
    out = {}
    with eng.connect() as conn:
        for name, expr in (("lower", sa.func.lower("MiXed")), ("upper", sa.func.upper("MiXed")),
                           ("round", sa.func.round(2.567, 1)), ("ltrim", sa.func.ltrim("  x ")),
                           ("rtrim", sa.func.rtrim("  x ")), ("substr", sa.func.substr("abcdef", 2, 3)),
                           ("floor", sa.func.floor(2.5)), ("ceil", sa.func.ceil(2.5)),
                           ("lower_non_ascii", sa.func.lower("\u00c9CLAIR")),
                           ("upper_non_ascii", sa.func.upper("\u00e9clair")),
                           ("lower_of_int", sa.func.lower(12)), ("ceil_of_int", sa.func.ceil(3)),
                           ("round_2", sa.func.round(2.567, 2))):
            try:
                r = conn.execute(sa.select(expr)).scalar()
                out[name] = [repr(r), type(r).__name__]
            except Exception as e:
                out[name] = ["ERR", type(e).__name__]
    eng.dispose()
    return out


def sweep_child(job):
    env.setup_path()
    snaps = []
    for step in job["script"]:
        if step == "U":
            snaps.append(["U", func_snapshot(FUNC_NAMES)])
        elif step == "E":
            snaps.append(["E", _host_exec_snapshot()])
        elif step == "I":
            import odata_query.sqlalchemy  # noqa: F401
        elif step == "D":
            from . import procsweep
            procsweep.do_import("django")
        elif step == "G":
            import odata_query.grammar  # noqa: F401
            import odata_query.sql  # noqa: F401
        elif step == "A":
            from sqlalchemy import select
            from sqlalchemy.dialects import sqlite

            from odata_query.sqlalchemy import apply_odata_core, apply_odata_query
            from .host import sa_models
            for f in A_FILTERS:
                q = apply_odata_query(select(sa_models.Author), f)
                str(q.compile(dialect=sqlite.dialect()))
                q = apply_odata_core(select(sa_models.TABLES["Author"]), f)
                str(q.compile(dialect=sqlite.dialect()))
        else:
            raise ValueError(step)
    return {"snaps": snaps}


def _sweep_jobs(seed, n_hash, n_scripts):
    rng = random.Random(seed * 17 + 3)
    scripts = [["U", "E", "I", "U", "E"], ["I", "U", "E"], ["U", "I", "A", "U", "E"],
               ["I", "A", "U", "E"], ["U", "E", "D", "I", "A", "U", "E"],
               ["G", "U", "I", "U", "A", "U", "E"], ["D", "U", "E", "I", "U", "E"],
               ["U", "A", "E", "U"]]
    while len(scripts) < n_scripts:
        n = rng.randint(3, 8)
        s = [rng.choice(["U", "E", "I", "A", "D", "G", "U"]) for _ in range(n)] + ["U", "E"]
        scripts.append(s)
    scripts = scripts[:n_scripts]
    hashseeds = [0, 1] + [rng.randrange(2, 2 ** 31) for _ in range(max(0, n_hash - 2))]
    jobs = [{"name": "control", "hashseed": 0, "script": ["U", "E"], "seed": seed}]
    for si, s in enumerate(scripts):
        h = hashseeds[si % len(hashseeds)]
        jobs.append({"name": "h%d-s%d" % (h, si), "hashseed": h, "script": s, "seed": seed})
    return jobs


def process_sweep(seed, tier, workers):
    from . import procsweep
    cfg = tier_config(tier)
    jobs = _sweep_jobs(seed, cfg["sweep_hashseeds"], cfg["sweep_scripts"])
    results = procsweep.run_children("C15", jobs, workers)
    harness, viol = [], []
    cjob, control, err = results[0]
    if control is None:
        return {"report": {}, "violations": [],
                "harness_errors": ["registry sweep control child failed: %s" % err]}
    want = {k: v for k, v in control["snaps"]}
    compared = 0
    for job, res, err in results[1:]:
        if res is None:
            harness.append("registry sweep child %s failed: %s" % (job["name"], err))
            continue
        for si, (kind, snap) in enumerate(res["snaps"]):
            bad = sorted(n for n in want[kind] if snap.get(n) != want[kind][n])
            compared += len(want[kind])
            if bad:
                n = bad[0]
                viol.append({"kind": "host-func-changed", "op_kind": "registry", "style": "registry",
                             "name": job["name"] + "-snap%d-%s" % (si, n), "job": job,
                             "control": cjob, "snap_index": si, "snap_kind": kind,
                             "func": n, "expected": want[kind][n], "got": snap.get(n),
                             "text": "sqlalchemy.func.%s after script %s" % (n, job["script"])})
                break
    return {"report": {"children": len(jobs), "completed": sum(1 for _, r, _ in results if r),
                       "scripts": [j["script"] for j in jobs],
                       "alphabet": {"U": "host compiles sqlalchemy.func.<name> for %d names" % len(FUNC_NAMES),
                                    "E": "host executes its own func calls on its own SQLite",
                                    "I": "import odata_query.sqlalchemy", "D": "import odata_query.django",
                                    "G": "import odata_query.grammar + odata_query.sql",
                                    "A": "shorthand calls using all registered functions"},
                       "snapshots_compared": compared, "mismatches": len(viol)},
            "violations": viol[:3], "harness_errors": harness}


def replay_sweep(rec):
    from . import procsweep
    results = procsweep.run_children("C15", [rec["control"], rec["job"]], 2)
    (j0, r0, e0), (j1, r1, e1) = results
    if r0 is None or r1 is None:
        raise RuntimeError("sweep replay child failed: %s %s" % (e0, e1))
    want = {k: v for k, v in r0["snaps"]}[rec["snap_kind"]][rec["func"]]
    got = r1["snaps"][rec["snap_index"]][1].get(rec["func"])
    return got != want, got, want


# --------------------------------------------------------------------------- evidence text
TIME_UNIT = "host operations executed (the system has no clock; steps are the only time)"
EVIDENCE_RULE = (
    "A case is one simulated host history: 5-14 seeded operations (plus a final run of "
    "every live query) on a pool of live query objects of the styles select(Model), "
    "select(aliased(Model)), legacy session.query(Model) and query(aliased(Model)), Core "
    "select(table) / select(some columns) / select from a join whose FROM order differs "
    "from the column order, Django QuerySet, Model.objects, a custom manager and a related "
    "manager, over a random small database: host where (also across a to-many relation) / "
    "join (relationship, outer, target+onclause, target, host alias, joinedload, Core join, "
    "select_related) / order / limit+offset / distinct / annotate / defer, apply the "
    "shorthand (result re-enters the pool; the same or the same-shape filter is re-applied "
    "on the same and on other bases), apply a failing filter, run any query (older ones "
    "after later applies included), compile and execute the host's own sqlalchemy.func "
    "statements on the shared engine, collect garbage; the engine's compiled-statement "
    "cache has a random size in {0,1,2,500}. Oracles per step: Python reference database, execution with the "
    "cache disabled, compiled-SQL snapshot of every live query before/after each shorthand "
    "call and at the end, join counts, and the same call chain built in a pristine forked "
    "process. A history is non-trivial if it applied the shorthand at least once; "
    "distinct_nontrivial counts distinct op-sequence signatures (op kind, base, style/"
    "filter text) among those.")
COMPONENTS = {
    "real": ["odata_query.sqlalchemy / odata_query.django shorthands and visitors",
             "SQLAlchemy 2.0 statement construction, compilation, compiled cache, ORM execution",
             "Django ORM queryset construction, compilation, execution", "SQLite (in-memory)",
             "SQLAlchemy global function registry", "CPython gc.collect() at planned steps"],
    "stubbed_or_controlled": ["the host application (simulated: seeded op histories)",
                              "the reference database (Python dict rows and hand-written "
                              "predicates for a fixed family of filter templates)",
                              "automatic cyclic GC (disabled; passes injected as ops)"],
}
ASSUMPTIONS = [
    "Filters come from a fixed family of templates whose OData meaning, SQL three-valued "
    "logic and inner/outer join behaviour agree (NOT NULL scalars, to-one navigation only "
    "as positive top-level conjunct and never with `ne`, lower-case ASCII strings); what "
    "arbitrary filters mean is C01-C04's business and is not decided here.",
    "Django `all()` lambdas are not generated: on the installed Django 6.1 they select the "
    "complement (Exists(..., negated=True) is ignored) - an input-level defect outside "
    "this technique (DESIGN.md 8).",
    "At most one join path per target table in a query chain (the shorthand does not alias "
    "joins; two paths to one table is an input-level limitation).",
    "Django query objects are compiled and evaluated through clones (.all()), because "
    "compiling a Django query mutates its join map - an observer effect of the harness.",
    "No thread interleaving: C15 does not promise thread-safety.",
    "SQLite only; GeoDjango and Django < 4 code paths are unreachable in this sandbox.",
    "Sampling, not enumeration: a clean batch is evidence, not proof.",
]
NOT_COVERED = ["databases other than SQLite", "to-many joins on the base query",
               "LIMIT/OFFSET bases", "Django < 4 queryset_annotations path", "GeoDjango"]


# --------------------------------------------------------------------------- enumerated family
SYSTEMATIC_DOC = (
    "Besides the seeded random histories, the product {8 host styles} x {base shapes: "
    "unfiltered, pre-filtered, ordered, pre-joined on the used relationship by "
    "relationship / outer / target+onclause / joinedload / select_related, pre-joined on "
    "another relationship, annotated, distinct, result of an earlier shorthand call} x "
    "{filter kinds: scalar, function, navigation depth 1 and 2, any, all, any()} is "
    "enumerated with a fixed small database; each history is: build the base, apply, run "
    "base and result, apply a failing filter, apply the same template with other "
    "literals, run everything.")

SYS_DATA = {
    "PostEditors": [[1, 1], [1, 2], [3, 2], [4, 3]],
    "Label": [{"id": 1, "name": "ann"}, {"id": 2, "name": "bob"}],
    "Kind": [{"id": 1, "name": "bob"}, {"id": 2, "name": "ann"}],
    "Author": [{"id": 1, "name": "ann"}, {"id": 2, "name": "bob"}, {"id": 3, "name": "ann"}],
    "Post": [{"id": 1, "title": "alpha", "rating": 5, "author_id": 1, "tag_id": 1},
             {"id": 2, "title": "beta", "rating": 2, "author_id": None, "tag_id": 2},
             {"id": 3, "title": "alpha", "rating": 3, "author_id": 2, "tag_id": None},
             {"id": 4, "title": "gamma", "rating": 0, "author_id": 1, "tag_id": 1}],
    "Comment": [{"id": 1, "body": "nice", "post_id": 1, "writer_id": 2, "co_writer_id": 1, "tag_id": 1},
                {"id": 2, "body": "cool", "post_id": 3, "writer_id": None, "co_writer_id": 2, "tag_id": 2},
                {"id": 3, "body": "nice", "post_id": 1, "writer_id": 1, "co_writer_id": None, "tag_id": 1},
                {"id": 4, "body": "meh", "post_id": 2, "writer_id": 3, "co_writer_id": 1, "tag_id": None}],
}
SYS_STYLES = ["sa_select", "sa_select_aliased", "sa_legacy", "sa_legacy_aliased", "sa_core",
              "sa_core_cols",
              "sa_core_fromjoin", "dj_qs",
              "dj_manager",
              "dj_custom_manager", "dj_related_manager"]
SYS_SHAPES = ["plain", "where", "order", "join_rel", "join_outer", "join_target_on",
              "join_joinedload", "join_other", "join_tag", "join_aliased_other",
              "join_two_used_first",
              "join_two_used_last",
              "annotated", "distinct", "chained", "limited", "where_many"]
SYS_FILTERS = ["scalar", "fn", "nav1", "nav_post", "nav2", "nav_same_key", "any", "all", "any0",
               "any2", "m2m_back"]


def _sys_template(kind, root, variant):
    v = variant
    if kind == "scalar":
        f = {"Post": "rating", "Comment": "post_id", "Author": "id"}[root]
        return {"k": "cmp", "f": f, "op": "ge", "v": 1 + v}
    if kind == "fn":
        f = {"Post": "title", "Comment": "body", "Author": "name"}[root]
        val = {"Post": "alpha", "Comment": "nice", "Author": "ann"}[root]
        return {"k": "fn", "fn": "substring", "f": f, "n": v, "m": 2, "op": "eq", "v": val[v:v + 2]}
    if kind == "nav1":
        rel = {"Post": "author", "Comment": "writer"}.get(root)
        if rel is None:
            return None
        return {"k": "nav", "path": [rel], "f": "name", "op": "eq", "v": ["ann", "bob"][v]}
    if kind == "nav_same_key":
        # Comment.tag (-> kind) and Post.tag (-> label): one key, two models, one filter
        if root != "Comment":
            return None
        return {"k": "and", "a": {"k": "nav", "path": ["tag"], "f": "name", "op": "eq", "v": ["bob", "ann"][v]},
                "b": {"k": "nav", "path": ["post", "tag"], "f": "name", "op": "eq", "v": ["ann", "bob"][v]}}
    if kind == "nav_post":
        if root != "Comment":
            return None
        return {"k": "nav", "path": ["post"], "f": "title", "op": "eq", "v": ["alpha", "beta"][v]}
    if kind == "nav2":
        if root != "Comment":
            return None
        return {"k": "nav", "path": ["post", "author"], "f": "name", "op": "eq", "v": ["ann", "bob"][v]}
    if kind == "m2m_back":
        # co-editors: posts I edit that have an editor called ...
        if root != "Author":
            return None
        return {"k": "m2m", "rel": "edited", "back": "editors", "f": "name", "v": ["bob", "ann"][v]}
    if kind == "any2":
        if root != "Author":
            return None
        return {"k": "coll2", "rels": ["posts", "comments"], "q": "any",
                "a": {"k": "cmp", "f": "id", "op": "ge", "v": 2 + v}}
    rel = {"Author": "posts", "Post": "comments"}.get(root)
    if rel is None:
        return None
    tgt = T.TO_MANY[root][rel][0]
    f = {"Post": "rating", "Comment": "id"}[tgt]
    if kind == "any0":
        return {"k": "coll", "rel": rel, "q": "any0"}
    return {"k": "coll", "rel": rel, "q": kind, "a": {"k": "cmp", "f": f, "op": "ge", "v": 2 + v}}


def _sys_history(style, root, shape, fkind):
    dj = style.startswith("dj")
    core = style in ("sa_core", "sa_core_cols", "sa_core_fromjoin")
    if style == "sa_core_fromjoin" and root != "Author":
        return None
    t = _sys_template(fkind, root, 0)
    t2 = _sys_template(fkind, root, 1)
    if t is None:
        return None
    if core and fkind in ("nav1", "nav_post", "nav2", "nav_same_key", "any", "all", "any0",
                          "any2", "m2m_back"):
        return None
    if dj and fkind == "all":
        return None
    if not dj and fkind in ("any2", "m2m_back"):
        return None      # the ORM backend joins the to-many owner path: row multiplicity
    ops = []
    n = [0]

    def add(op):
        n[0] += 1
        op["i"] = n[0]
        ops.append(op)
        return n[0]

    new = {"op": "new", "style": style, "root": root}
    if style == "dj_custom_manager" and root != "Post":
        return None
    if style == "dj_related_manager":
        if root == "Author":
            return None
        new["owner_id"] = 1
    base = add(new)
    rel1 = {"Post": "author", "Comment": "writer"}.get(root)
    other = {"Comment": "post"}.get(root)
    if shape == "where":
        f = {"Post": "rating", "Comment": "post_id", "Author": "id"}[root]
        base = add({"op": "where", "base": base, "cond": {"f": f, "op": "le", "v": 4}})
    elif shape == "order":
        f = {"Post": "title", "Comment": "body", "Author": "name"}[root]
        base = add({"op": "order", "base": base, "o": {"f": f, "dir": "desc"}})
    elif shape.startswith("join_two"):
        # two host joins; the filter navigates the one joined first / last
        if root != "Comment" or dj or core or fkind in ("nav2", "nav_same_key"):
            return None
        seq = ["writer", "post"] if shape.endswith("first") else ["post", "writer"]
        for rel in seq:
            # Comment.post is joined by target + ON clause (recognised through table
            # name == relationship key), Comment.writer by relationship
            form = "target_on" if rel == "post" else "rel"
            base = add({"op": "join", "base": base,
                        "j": {"owner": root, "rel": rel, "via": [], "form": form}})
    elif shape.startswith("join_"):
        form = {"outer": "outer_rel"}.get(shape[5:], shape[5:])
        if shape == "join_tag":
            # the base joins `tag` of the root model; a filter may need `tag` of another
            # model (post/tag): same key, other relationship
            if root not in ("Comment", "Post") or core:
                return None
            rel, form = "tag", "rel"
        elif shape == "join_aliased_other":
            # the host joins Comment.co_writer through its own alias of Author; the
            # filter navigates the other relationship to that entity (writer)
            if root != "Comment" or core or dj or fkind in ("nav2", "nav_same_key"):
                return None
            rel, form = "co_writer", "aliased_rel"
        elif shape == "join_other":
            if other is None or core:
                return None
            rel, form = other, "rel"
        else:
            rel = rel1
        if rel is None:
            return None
        if fkind == "nav_same_key" and shape not in ("join_other", "join_tag"):
            return None
        if fkind == "nav2" and rel == "writer" and form != "aliased_rel":
            return None      # two join paths to one table: input-level limitation (6.1)
        if core:
            if form != "rel":
                return None
            form = "core_join"
        if dj:
            if form not in ("rel", "other"):
                return None
            j = {"owner": root, "rel": rel, "via": [], "form": "select_related", "path": rel}
        else:
            if form == "target_on" and T.TABLE[T.TO_ONE[root][rel][1]] != rel:
                return None      # the known finding's shape; the random tier reports it
            j = {"owner": root, "rel": rel, "via": [], "form": form}
        base = add({"op": "join", "base": base, "j": j})
    elif shape == "where_many":
        if not dj or root != "Post":
            return None
        base = add({"op": "where_many", "base": base, "rel": "comments",
                    "cond": {"f": "id", "op": "ge", "v": 1}})
    elif shape == "limited":
        f = {"Post": "title", "Comment": "body", "Author": "name"}[root]
        base = add({"op": "order", "base": base, "o": {"f": f, "dir": "asc"}})
        base = add({"op": "limit", "base": base, "n": 2, "offset": 0})
    elif shape == "annotated":
        if not dj or root != "Post":
            return None
        base = add({"op": "annotate", "base": base})
    elif shape == "distinct":
        if style == "sa_core_fromjoin":
            return None      # DISTINCT over (author columns, post title): multiplicity
        base = add({"op": "distinct", "base": base})
    elif shape == "chained":
        f = {"Post": "rating", "Comment": "post_id", "Author": "id"}[root]
        base = add({"op": "apply", "base": base, "t": {"k": "cmp", "f": f, "op": "le", "v": 5}})
    add({"op": "host_func", "name": "substr" if fkind == "fn" else "lower"})
    r1 = add({"op": "apply", "base": base, "t": t})
    add({"op": "run", "base": base})
    add({"op": "run", "base": r1})
    add({"op": "host_func", "name": "substr" if fkind == "fn" else "round"})
    add({"op": "apply_fail", "base": base, "bad": dict(BAD_FILTERS[4])})
    r2 = add({"op": "apply", "base": base, "t": t2})
    r3 = add({"op": "apply", "base": r1, "t": t2})
    # the identical filter once more, on a plain base of the same style and model
    plain = add(dict(new))
    r4 = add({"op": "apply", "base": plain, "t": t})
    for q in (r2, r3, r4, r1, base):
        add({"op": "run", "base": q})
    if dj and root == "Post" and shape in ("plain", "where", "order"):
        # the host goes on deriving from the base after the shorthand calls: two chained
        # conditions across the same to-many relation (separate joins)
        w1 = add({"op": "where_many", "base": base, "rel": "comments",
                  "cond": {"f": "id", "op": "ge", "v": 2}})
        w2 = add({"op": "where_many", "base": w1, "rel": "comments",
                  "cond": {"f": "id", "op": "le", "v": 3}})
        add({"op": "run", "base": w2})
    return ops


def systematic_jobs(seed, tier):
    nsl = 16
    if tier == "thorough":
        return [{"slice": s, "nslices": nsl, "take": 1} for s in range(nsl)]
    # quick: the whole product too, with one cache size instead of two
    return [{"slice": s, "nslices": nsl, "take": 1, "caches": [2]} for s in range(nsl)]


def _cross_model_histories():
    """The same accessor used as lambda owner (and as navigation key) from two root models
    in one process, in both orders - what a cache keyed by the bare name needs."""
    out = []
    t_coll = lambda v: {"k": "coll", "rel": "comments", "q": "any",   # noqa: E731
                        "a": {"k": "cmp", "f": "id", "op": "ge", "v": v}}
    t_tag = lambda v: {"k": "nav", "path": ["tag"], "f": "name", "op": "eq", "v": v}  # noqa: E731
    for style in SYS_STYLES:
        if style in ("sa_core", "sa_core_cols", "sa_core_fromjoin", "dj_custom_manager"):
            continue
        for first, second in (("Author", "Post"), ("Post", "Author")):
            ops, n = [], [0]

            def add(op):
                n[0] += 1
                op["i"] = n[0]
                ops.append(op)
                return n[0]
            for root in (first, second, first):
                new = {"op": "new", "style": style, "root": root}
                if style == "dj_related_manager":
                    if root == "Author":
                        continue
                    new["owner_id"] = 1
                b = add(new)
                r = add({"op": "apply", "base": b, "t": t_coll(1)})
                add({"op": "run", "base": r})
            out.append(("sys-cross-lambda-%s-%s" % (style, first), ops))
        # the relationship key `tag` exists on Post (-> label) and on Comment (-> kind)
        for first, second in (("Post", "Comment"), ("Comment", "Post")):
            ops, n = [], [0]

            def add(op):
                n[0] += 1
                op["i"] = n[0]
                ops.append(op)
                return n[0]
            for root in (first, second, first):
                new = {"op": "new", "style": style, "root": root}
                if style == "dj_related_manager":
                    new["owner_id"] = 1
                b = add(new)
                r = add({"op": "apply", "base": b, "t": t_tag("ann")})
                add({"op": "run", "base": r})
            out.append(("sys-cross-key-%s-%s" % (style, first), ops))
    return out


def systematic_plans(seed, spec):
    if spec["slice"] == 0:
        for label, ops in _cross_model_histories():
            yield (label, {"property": "C15", "seed": seed, "run": label, "cache_size": 500,
                           "data": SYS_DATA, "ops": [dict(o) for o in ops]})
    combos = [(st, ro, sh, fk) for st in SYS_STYLES for ro in ("Post", "Comment", "Author")
              for sh in SYS_SHAPES for fk in SYS_FILTERS]
    idx = 0
    for ci, (st, ro, sh, fk) in enumerate(combos):
        ops = _sys_history(st, ro, sh, fk)
        if ops is None:
            continue
        idx += 1
        if idx % spec["nslices"] != spec["slice"]:
            continue
        if spec.get("take", 1) > 1 and (idx // spec["nslices"]) % spec["take"] != spec.get("offset", 0):
            continue
        for cache in spec.get("caches", (2, 500)):
            label = "sys-%s-%s-%s-%s-c%d" % (st, ro, sh, fk, cache)
            yield (label, {"property": "C15", "seed": seed, "run": label, "cache_size": cache,
                           "data": SYS_DATA, "ops": [dict(o) for o in ops]})
